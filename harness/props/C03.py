"""C03: every supported training password is reproduced by the trained grammar;
probabilities sum to 1.  End to end: real trainer.py (subprocess) -> rule
directory -> real guesser (skip_brute) run to exhaustion -> language.
Model side: Pipeline.v is ONE executable model of the whole chain (trainer
passes, counters, probability lists, files, the guesser's loaders with
skip_brute, the next algorithm, the expansion); PipelineProofs.v proves the
property over it.  Correspondence: on the small training lists the model
itself is executed by vm_compute (binary64 instance, finite repr/float()
tables) and compared with what the real trainer -> guesser produced: the
loaded grammar (every group), the base-structure list and the multiset of all
guesses.  EndToEnd.v's mask round trip is still checked on every alpha tile."""
import json
import os

import common
import impl_next
import trainer_io
import unicode_pool
from props.C04 import collect
from omen_level import training_bytes      # (one line feed / one byte order mark per file for utf-16)

ID = "C03"
TRUSTED = ["C03_reproduced is ONE theorem over ONE executable pipeline model (coq/theories/Pipeline.v: check_valid, multi-word pass, "
           "detectors, counters, probability lists, Markov pseudo-count, file names and config lists, the text files, the guesser's "
           "terminal and base-structure loaders with skip_brute, the next algorithm for any heap meeting pop_ok_okb, the expansion); "
           "the model is tied to the source by executing it (vm_compute, binary64, finite repr/float() tables of the interpreter) on "
           "the small training lists and comparing with the real trainer -> guesser: every loaded group, the base-structure list, "
           "the multiset of guesses",
           "oracles assumed by C03_reproduced (PipelineDisk.io_ok): float(repr(p)) == p for finite p >= 0 with repr over 0-9.e+-infa, "
           "the ruleset encoding encodes ASCII, the training passwords and the lower case of what it encodes",
           "not modelled: OMEN training and its files (with skip_brute they only have to load), config.ini through configparser/json "
           "(section -> name/directory table is Counters.config_dirs + Pipeline.guesser_sections, exercised by the correspondence), "
           "decoding of the training file (C19: the model starts from the decoded lines)",
           "str.upper()/lower()/isalpha()/isdigit()/isupper() tables of the interpreter (gen/Unicode_gen.v; per case for the "
           "characters of the case); case_ok is also evaluated per password by the harness"]
ASSUMES = ["domain of the property: every letter of the password has a one-to-one upper/lower mapping (case_ok_pw)",
           "structure without e-mail / website segment (supported_pw)",
           "binary64 instance: the computable check f64_arith_ok on the run's own counters (finite counts not above their total, "
           "P(M) < 1 in binary64, rescaled base probabilities finite; evaluated on every case by the correspondence); the exact-"
           "rational instance (C03_reproduced_exact, C03_sum_one_Q) needs only 0 < coverage <= 1"]


def case_ok(pw):
    for c in pw:
        if c.isupper():
            l = c.lower()
            if len(l) != 1 or l.upper() != c:
                return False
        else:
            if c.lower() != c:
                return False
            # a letter that is neither upper nor lower case but changes under upper() (title case etc.)
            if c.isalpha() and c.upper() != c and (len(c.upper()) != 1 or c.upper().lower() != c):
                return False
    return True


RULE_DIRS = ("Alpha", "Capitalization", "Digits", "Other", "Keyboard", "Years", "Context")


def pipeline_case(passwords, enc, cov, g, tree, all_lines, rle=None):
    """One case for PipelineCorr.check_pipeline: the inputs of the model and what the real code produced.
    rle: the training sequence as [(password, repetitions)] - the model's raw list is then the Gallina expression that
    repeats every password (the model still parses every single line, as the trainer does)."""
    import seg_gen
    T = trainer_io
    if rle is not None:
        raw = ("(flat_map (fun pc : Str.str * N => repeat (fst pc) (N.to_nat (snd pc))) %s)"
               % T.clist(rle, lambda e: "(%s, %d%%N)" % (T.cs(e[0]), e[1]), "(Str.str * N)"))
    else:
        raw = T.cstrs(passwords)
    chars = set("".join(passwords))
    for _ in range(2):
        chars |= set("".join(c.lower() + c.upper() for c in chars))
    facts = seg_gen.unicode_facts(sorted(chars))
    extra = T.clist(facts, lambda f: "(%d%%N, Build_cinfo %s %s %s %s %s)" % (
        f[0], common.cbool(f[1]), common.cbool(f[2]), common.cbool(f[3]), T.cs(f[4]), T.cs(f[5])), "(N * cinfo)")
    floats, ptab, texts = [], {}, []
    for rel, data in sorted(tree.items()):
        d = rel.split(os.sep)[0]
        if d in RULE_DIRS:
            text = data.decode(enc)
        elif rel == os.path.join("Grammar", "grammar.txt"):
            text = data.decode("ascii")
        else:
            continue
        texts.append(text)
        ptab.update(T.pfloat_table(text))
        for _, ptxt in T.parse_rule_file(data, enc if d in RULE_DIRS else "ascii"):
            floats.append(float(ptxt))
    unenc = T.unencodable_chars("".join(texts) + "".join(chars), enc)
    gram = [(name, [(grp["values"], grp["prob"]) for grp in groups])
            for name, groups in g.grammar.items() if name[:1] not in ("M", "E", "W")]
    bases = [(b["prob"], b["replacements"]) for b in g.base]
    cgram = T.clist(gram, lambda e: T.cpair(T.cs(e[0]), T.clist(e[1], lambda gr: T.cpair(T.cstrs(gr[0]), T.cf(gr[1])),
                                                                 "(list str * float)")),
                    "(str * list (list str * float))")
    cbases = T.clist(bases, lambda b: T.cpair(T.cf(b[0]), T.cstrs(b[1])), "(float * list str)")
    exp = "(Some (%s, %s, %s))" % (cgram, cbases, T.cstrs(sorted(all_lines)))
    return ("{| pk_extra := %s; pk_raw := %s; pk_cov := %s; pk_repr := %s; pk_pfloat := %s; pk_unenc := %s; "
            "pk_abort := %s; pk_exp := %s |}" % (
                extra, raw, T.cf(cov), T.repr_table(floats), T.c_pfloat_table(ptab),
                T.clist(unenc, T.cN, "N"), common.cbool(T.surrogate_reason_aborts(enc)), exp))


# fixed lists at the edges of the trainer's comparisons (always run through the model):
# words seen exactly threshold (5) times next to their concatenation; a word one below the threshold; minimal
# multi-word length; a keyboard walk of the minimal length; years at both ends of a digit run; coverage 1
CRAFTED = [
    (["pass"] * 5 + ["word"] * 5 + ["password", "PassWord1", "wordpass!"], "utf-8", 0.6),
    (["love"] * 4 + ["monkey"] * 5 + ["lovemonkey", "monkeylove", "Monkey12"], "utf-8", 1.0),
    (["1qaz", "1qaz2wsx", "qwer", "zxcvbn1", "19991", "a2019", "2019a", "x#1", "#12"], "utf-8", 0.9),
]

# large-count lists up to this many lines are also run through the pipeline model inside coqc
MODEL_LINES = {"quick": 12000, "thorough": 130000}

PIPE_HEADER = ["From Coq Require Import List NArith ZArith Bool Floats.",
               "From Pcfg Require Import Str TextFile Counters IoCorr Pipeline PipelineCorr.",
               "Import ListNotations.", "Open Scope float_scope.", "Open Scope N_scope.", ""]
DIAG = {1: "one side has no loadable ruleset", 2: "the loaded grammar (terminal groups) differs",
        3: "the base-structure list differs", 4: "the multiset of guesses differs",
        5: "model and implementation agree but the float sanity check f64_arith_ok (hypothesis of C03_reproduced_F64) is false on this run"}


def segment_all(passwords, train_rle=None):
    """the segmentation pass 2 of the trainer uses (multi-word detector trained on the whole list first).
    train_rle: the training sequence as [(password, repetitions)] when `passwords` only holds the distinct ones"""
    common.repo_on_path()
    import lib_trainer.pcfg_password_parser as ppp
    from lib_trainer.detection_rules.multiword_detector import MultiWordDetector
    mwd = MultiWordDetector(threshold=5, min_len=4, max_len=21)
    if train_rle is None:
        for p in passwords:
            mwd.train(p)
    else:
        for p, n in train_rle:
            for _ in range(n):
                mwd.train(p)
    cap = []
    orig = ppp.base_structure_creation

    def wrapped(sl):
        cap.append([tuple(x) for x in sl])
        return orig(sl)
    ppp.base_structure_creation = wrapped
    try:
        parser = ppp.PCFGPasswordParser(mwd)
        out = {}
        for p in passwords:
            n0 = len(cap)
            try:
                parser.parse(p)
            except Exception:
                out[p] = None
                continue
            out[p] = cap[n0] if len(cap) > n0 else None
    finally:
        ppp.base_structure_creation = orig
    return out


# ---------------------------------------------------------------------------
# training histories with LARGE counts: values that were seen hundreds / thousands of times, almost equally often

W_WORDS = {4: ["lamp", "blue", "tree", "frog", "king", "moon", "star", "wolf"],
           5: ["chair", "table", "horse", "tiger", "apple", "house", "light", "water"],
           6: ["monkey", "dragon", "summer", "winter", "purple", "wizard", "silver", "orange"]}
W_WORDS_ENC = {"utf-8": {5: ["весна", "осень", "école"],
                         6: ["пароль", "привет", "garçon"]},
               "cp1251": {5: ["весна", "осень"],
                          6: ["пароль", "привет"]},
               "latin-1": {5: ["école", "crème"], 6: ["garçon", "façade"]}}
# alpha words that are not in Unicode normal form C (all letters without case): six Hangul conjoining jamo (NFC: two syllables),
# five CJK compatibility ideographs (NFC: the unified ideographs)
W_WORDS_ENC["utf-8"][6].append(unicode_pool.nfd(unicode_pool.U("d55c ae00")))
W_WORDS_ENC["utf-8"][5].append(unicode_pool.U("f900 f901 f902 f903 f904"))
W_DIGITS = {1: list("0123456789"), 2: ["12", "07", "99", "21", "00", "69"], 3: ["123", "007", "321", "999", "000"],
            4: ["1234", "4321", "0000", "1111", "7890"]}
W_OTHER = {1: list("!#$%&*?._-"), 2: ["!!", "!?", "$$", "**", "..", "#$"]}
W_YEARS = ["1984", "1999", "2001", "2010", "2019", "2020"]
W_WALKS = ["qwer", "asdf", "zxcv", "1qaz", "2wsx", "qaz1"]
W_CONTEXT = ["#1", "<3", ";p", "*0*"]


def near_counts(rng, k, scale):
    """k counts, the first in the range of `scale`, every next one 0-3 (or, for the larger scales, less than 1%) lower"""
    if scale == "h":
        c, steps = rng.randint(100, 400), [0, 1, 1, 2, 3]
    elif scale == "k":
        c, steps = rng.randint(1000, 3000), [0, 1, 2, 5, 9]
    else:
        c, steps = rng.randint(10000, 12000), [0, 1, 7, 40, 95]
    out = [c]
    for _ in range(k - 1):
        c = max(1, c - rng.choice(steps))
        out.append(c)
    return out


_LB = []


def has_linebreak(p):
    if not _LB:
        _LB.append(set(trainer_io.char_classes()["linebreak"]))
    return any(ord(c) in _LB[0] for c in p)


def mask_apply(word, mask):
    return "".join(c.upper() if m == "U" else c for c, m in zip(word, mask))


W_FAMILIES = ["alpha", "digits", "other", "years", "walks", "context", "masks", "base"]


def gen_weighted(rng, enc, scale, first, dominant=(), extra=None):
    """A training history in which the values of ONE rules file were each seen very often and almost equally often:
    values of one terminal file (alpha words of one length, digits / symbols of one length, years, keyboard walks, context
    strings), capitalisation masks of one length, base structures - the family `first` and up to two more in one list - plus
    a tail of rare passwords and optionally dominant passwords.  Returns ([(password, count)], [family names])."""
    L = rng.choice([4, 5, 6])
    words = list(W_WORDS[L]) + (W_WORDS_ENC.get(enc, {}).get(L, []) if rng.random() < 0.5 else [])
    rng.shuffle(words)
    fams = [first] + rng.sample([f for f in W_FAMILIES if f != first], rng.choice([0, 0, 1, 2]) if extra is None else extra)
    entries, names = [], []
    for fam in dict.fromkeys(fams):
        k = rng.randint(2, 5)
        cs = near_counts(rng, k, scale)
        w0 = rng.choice(words)
        if fam == "alpha":
            suffix = rng.choice(["", "", "1", "!", "12"])
            vals = [w + suffix for w in words[:k]]
        elif fam == "digits":
            n = rng.choice([1, 2, 3, 4])
            ds = rng.sample(W_DIGITS[n], min(k, len(W_DIGITS[n])))
            vals = [rng.choice([w0 + d, d + w0]) if rng.random() < 0.2 else w0 + d for d in ds]
        elif fam == "other":
            n = rng.choice([1, 1, 2])
            os_ = rng.sample(W_OTHER[n], min(k, len(W_OTHER[n])))
            vals = [w0 + o for o in os_]
        elif fam == "years":
            vals = [w0 + y for y in rng.sample(W_YEARS, k)]
        elif fam == "walks":
            tail = rng.choice(["", "1", "!"])
            vals = [x + tail for x in rng.sample(W_WALKS, k)]
        elif fam == "context":
            vals = [w0 + x for x in rng.sample(W_CONTEXT, min(k, len(W_CONTEXT)))]
        elif fam == "masks":
            masks = ["L" * L, "U" + "L" * (L - 1), "U" * L, "L" * (L - 1) + "U", "UL" * (L // 2) + "U" * (L % 2), "LU" + "L" * (L - 2)]
            ms = rng.sample(masks, k)
            suffix = rng.choice(["", "1", "7!"])
            vals = [mask_apply(rng.choice(words[:2]) if rng.random() < 0.3 else w0, m) + suffix for m in ms]
        else:   # base structures
            d, o, y = rng.choice(W_DIGITS[2]), rng.choice(W_OTHER[1]), rng.choice(W_YEARS)
            shapes = [w0, w0 + d, d + w0, w0 + o, w0 + d + o, o + w0, w0 + y, w0 + o + d, d + o, w0 + " " + rng.choice(words)]
            vals = rng.sample(shapes, k)
        names.append(fam)
        for v, c in zip(vals, cs):
            entries.append((v, c))
    # words that were seen often enough to split a multi-word password
    if rng.random() < 0.4:
        a, b = rng.sample(words, 2)
        entries += [(a, rng.randint(5, 9)), (b, rng.randint(5, 9)), (a + b, rng.choice([1, 2, 101])), (b.capitalize() + a + "1", 1)]
        names.append("multiword")
    for p, c in trainer_io.gen_entries(rng, enc, n_distinct=rng.randint(2, 6)):
        if not (trainer_io.is_hex_shaped(p) or has_linebreak(p) or "\r" in p or "\n" in p or "\t" in p):
            entries.append((p, c))
    for pw, c in zip(rng.sample(["password1", "123456", "Password", "iloveyou"], len(dominant)), dominant):
        entries.append((pw, c))
        names.append("dominant")
    entries = [(p, c) for p, c in entries if trainer_io.encodable(p, enc)]
    rng.shuffle(entries)
    return entries, names


def sequence_of(rng, entries, prefixcount):
    """the training sequence [(password, repetitions)]: with --prefixcount one line per entry; with repeated lines either
    one block per entry or one line of every password first (first-seen order differs from count order) and then the blocks"""
    if prefixcount or rng.random() < 0.5:
        return [(p, c) for p, c in entries]
    head = [(p, 1) for p, c in entries]
    rng.shuffle(head)
    return head + [(p, c - 1) for p, c in entries if c > 1]


def write_training(fn, rle, enc, prefixcount):
    with open(fn, "wb") as f:
        for p, n in rle:
            if prefixcount:
                f.write(("%d %s" % (n, p)).encode(enc) + b"\n")
            else:
                f.write((p.encode(enc) + b"\n") * n)


def train_start(code, training_file, name, enc, coverage, ngram, prefixcount):
    """trainer.py of the scratch copy as a subprocess that runs beside the rest of the check"""
    import subprocess
    env = common.subenv()
    env["PYTHONPATH"] = code
    env["PYTHONHASHSEED"] = "0"
    cmd = [common.PY, "trainer.py", "-t", training_file, "-r", name, "-e", enc, "-c", repr(coverage), "-n", str(ngram)]
    if prefixcount:
        cmd.append("--prefixcount")
    return subprocess.Popen(cmd, cwd=code, env=env, stdin=subprocess.DEVNULL, stdout=subprocess.DEVNULL, stderr=subprocess.DEVNULL)


# ---------------------------------------------------------------------------
# sessions on one loaded grammar

def run_session(g, limit=None, cap_items=20000, cap_guesses=2000000):
    """One guessing session on an already loaded grammar, driven the way CrackingSession.run drives it: a fresh PcfgQueue,
    pop, create_guesses(pt, limit), subtract, stop at the limit.  Returns [(pt, prob, lines)] or None (caps / raised)."""
    from lib_guesser.priority_queue import PcfgQueue
    q = PcfgQueue(g)
    out, total = [], 0
    while len(out) < cap_items and total <= cap_guesses:
        it = q.next()
        if it is None:
            return out
        res = collect(g, it["pt"], limit)
        if res is None:
            return None
        out.append(([tuple(x) for x in it["pt"]], it["prob"], res[0]))
        total += res[1]
        if limit:
            limit -= res[1]
            if limit <= 0:
                return out
    return None


def judge_session(ref, got, limit, supported):
    """ref: the first complete session of the freshly loaded grammar.  got: a later session on the same grammar object.
    Returns (kind, text) or None: the property's own oracles on the later session first (every supported training password
    emitted, probabilities sum to 1), then equality with the first session, guess for guess."""
    if got is None:
        return ("raised", "a later session on the same loaded grammar raised or did not end")
    if limit:
        return None     # a limited session is only part of the history: C03 speaks about complete generation
    if got == ref:
        return None
    lang = set(s for _, _, ls in got for s in ls)
    total = sum(p * len(ls) for _, p, ls in got)
    missing = [p for p in supported if p not in lang]
    if missing:
        return ("not-reproduced", "training password %r (and %d more) is never generated; %d of %d pre-terminals, probabilities sum to %r"
                % (missing[0], len(missing) - 1, len(got), len(ref), total))
    if abs(total - 1.0) > 1e-9:
        return ("sum-not-one", "probabilities of all guesses sum to %r (%d of %d pre-terminals)" % (total, len(got), len(ref)))
    k = next((j for j, (a, b) in enumerate(zip(got, ref)) if a != b), min(len(got), len(ref)))
    return ("differs", "pre-terminal %d is %r, the first session gave %r" % (k, got[k:k + 1], ref[k:k + 1]))


def histories(g, reload, ref, supported, k_limit):
    """Sessions after the first complete one.  On the SAME grammar object: a limited session, a complete one; on a freshly
    loaded grammar: a limited session first, then a complete one.  Each complete session must equal the first one guess
    for guess.  Returns (history, kind, text) of the first failure or None."""
    hist = [["complete", None]]
    for lim in (k_limit, None):
        hist.append(["limited", lim] if lim else ["complete", None])
        bad = judge_session(ref, run_session(g, lim), lim, supported)
        if bad:
            return hist, bad[0], bad[1]
    g2 = reload()
    hist = []
    for lim in (k_limit, None):
        hist.append(["limited", lim] if lim else ["complete", None])
        bad = judge_session(ref, run_session(g2, lim), lim, supported)
        if bad:
            return hist, bad[0], bad[1]
    return None


class State:
    def __init__(self):
        self.vio, self.samples, self.cases, self.pipe_cases = [], [], [], []
        self.dist = {"lists": 0, "passwords": 0, "supported": 0, "unsupported_ew": 0, "outside_case_domain": 0, "too_large": 0,
                     "encodings": {}, "coverage": {}, "train_failed": 0, "max_sum_deviation": 0.0, "kinds": {},
                     "pipeline_model_runs": 0, "pipeline_model_runs_weighted": 0, "weighted_lists": 0, "weighted_families": {},
                     "weighted_modes": {}, "weighted_max_count": 0, "weighted_lines": 0,
                     "session_histories": 0, "sessions_after_the_first": 0}
        self.nontrivial, self.seen = 0, set()


def process(ctx, st, code, name, rd, tree, passwords, enc, cov, replay, rle=None, model_cap=None):
    """One trained ruleset: load, enumerate to exhaustion, the property's oracles, later sessions on the same grammar,
    the case for the pipeline model.  passwords: the training sequence (rle None) or the distinct passwords (rle given)."""
    import shutil
    from lib_guesser.pcfg_grammar import PcfgGrammar
    vio, dist = st.vio, st.dist
    dist["lists"] += 1
    dist["encodings"][enc] = dist["encodings"].get(enc, 0) + 1
    dist["coverage"][str(cov)] = dist["coverage"].get(str(cov), 0) + 1

    def load():
        return common.quiet_call(PcfgGrammar, name, rd, "4.7", None, True, False, False, "Grammar")[0]
    try:
        g = load()
    except Exception as e:
        vio.append({"sig": "C03:ruleset-not-loadable", "what": "the guesser cannot load the ruleset the trainer wrote: %r" % (e,), "replay": replay})
        return
    try:
        items, _, capped, _ = impl_next.full_stream(g, cap=ctx.scale(4000, 20000), check_heap=False)
        if capped:
            dist["too_large"] += 1
            return
        lang = {}
        all_lines = []
        ref = []
        total = 0.0
        nguess = 0
        for it in items:
            res = collect(g, it["pt"], None)
            if res is None:
                vio.append({"sig": "C03:expansion-raised", "what": "create_guesses raised on %r" % (it["pt"],), "replay": replay})
                continue
            all_lines += res[0]
            ref.append((it["pt"], it["prob"], res[0]))
            for s in res[0]:
                lang[s] = lang.get(s, 0.0) + it["prob"]
            total += it["prob"] * res[1]
            nguess += res[1]
            if nguess > ctx.scale(300000, 2000000):
                dist["too_large"] += 1
                return
        # the pipeline MODEL on the same list (small lists: the model runs inside coqc)
        distinct = list(dict.fromkeys(passwords))
        nlines = sum(n for _, n in rle) if rle is not None else len(passwords)
        if (len(distinct) <= (24 if rle is not None else 14) and nlines <= (model_cap or 60) and nguess <= 1500
                and (dist["pipeline_model_runs_weighted"] < ctx.scale(20, 120) if rle is not None
                     else dist["pipeline_model_runs"] - dist["pipeline_model_runs_weighted"] < ctx.scale(24, 200))
                and not any(trainer_io.is_hex_shaped(p) or has_linebreak(p) or "\r" in p or "\n" in p
                            for p in passwords)):
            st.pipe_cases.append((pipeline_case(passwords, enc, cov, g, tree, all_lines, rle), replay, nlines))
            dist["pipeline_model_runs"] += 1
            dist["pipeline_model_runs_weighted"] += rle is not None
        segs = segment_all(distinct, rle) if rle is not None else segment_all(passwords)
        # what actually reaches the trainer: the reader may reject some lines (C19); take the accepted ones
        supported = []
        for p in distinct:
            dist["passwords"] += 1
            sl = segs.get(p)
            if sl is None:
                continue
            if any(lab in ("E", "W") for _, lab in sl):
                dist["unsupported_ew"] += 1
                continue
            if not case_ok(p):
                dist["outside_case_domain"] += 1
                continue
            dist["supported"] += 1
            supported.append(p)
            if not unicode_pool.nfc_stable(p):
                dist["supported_not_nfc"] = dist.get("supported_not_nfc", 0) + 1
            kinds = "".join(sorted(set(lab[0] for _, lab in sl)))
            dist["kinds"][kinds] = dist["kinds"].get(kinds, 0) + 1
            if p not in lang:
                vio.append({"sig": "C03:not-reproduced", "what": "training password %r (segments %r) is never generated from the trained ruleset "
                            "(encoding %s, coverage %s)" % (p, sl, enc, cov), "replay": dict(replay, password=p)})
            key = (p, enc)
            if key not in st.seen:
                st.seen.add(key)
                st.nontrivial += len(sl) >= 2 or any(c.isupper() for c in p) or any(ord(c) > 127 for c in p)
        dev = abs(total - 1.0)
        dist["max_sum_deviation"] = max(dist["max_sum_deviation"], dev)
        if dev > 1e-9:
            vio.append({"sig": "C03:sum-not-one", "what": "probabilities of all guesses sum to %r (encoding %s, coverage %s)" % (total, enc, cov), "replay": replay})
        # the same loaded grammar used again: every later session must give what the first one gave
        if nguess <= ctx.scale(60000, 400000):
            k_limit = 1 + (dist["session_histories"] * 7 + nguess) % max(1, min(nguess, 40))
            dist["session_histories"] += 1
            dist["sessions_after_the_first"] += 4
            bad = histories(g, load, ref, supported, k_limit)
            if bad:
                hist, kind, text = bad
                vio.append({"sig": "C03:later-session:" + kind,
                            "what": "history %s on one loaded grammar object (each session with its own new PcfgQueue): in the last "
                                    "session %s (encoding %s, coverage %s)" % (json.dumps(hist), text, enc, cov),
                            "replay": dict(replay, history=hist)})
        if len(st.samples) < 3 or (rle is not None and len(st.samples) < 5):
            st.samples.append({"passwords": distinct[:8], "counts": [n for _, n in rle][:12] if rle is not None else None,
                               "encoding": enc, "coverage": cov, "guesses": nguess, "sum": total,
                               "segments": {p: segs[p] for p in distinct[:3]}})
        # a case for the composition check in Coq: masks round trip for each supported alpha tile
        for p in distinct:
            sl = segs.get(p)
            if sl and case_ok(p) and not any(lab in ("E", "W") for _, lab in sl):
                for txt, lab in sl:
                    if lab[0] == "A" and len(st.cases) < 600:
                        chars = sorted(set(txt) | set(txt.lower()))
                        st.cases.append((txt, [(c, c.lower(), c.upper(), c.isupper()) for c in chars]))
    finally:
        shutil.rmtree(rd, ignore_errors=True)


def run(ctx):
    nlists = ctx.scale(24, 400)
    code = common.copy_code_tree(common.scratch())
    sc = common.scratch()
    st = State()
    vio, dist = st.vio, st.dist
    # The training histories with large counts are generated first and trained by a few trainer.py processes that run
    # beside the rest of the check (the lists with a dominant password of 10^5 need ~10 s each).
    wrng = __import__("random").Random("C03-large-counts-%s" % ctx.seed)
    jobs = []
    for j in range(ctx.scale(1, 4)):
        enc, cov = wrng.choice(["utf-8", "utf-8", "latin-1", "cp1251"]), wrng.choice([0.3, 0.6, 0.9, 1.0])
        dom = [wrng.choice([100000, 100000, 99999, 123457])]
        if j % 2 == 1:
            dom.append(dom[0] - wrng.choice([0, 1, 50, 900]))      # two dominant passwords, less than 1 percent apart
        entries, fams = gen_weighted(wrng, enc, "h", wrng.choice(W_FAMILIES), dominant=dom, extra=1)
        jobs.append({"name": "B%d" % j, "enc": enc, "cov": cov, "ngram": 4, "prefixcount": True, "fams": fams,
                     "rle": sequence_of(wrng, entries, True)})
    for i in range(ctx.scale(16, 160)):
        enc = wrng.choice(["utf-8", "utf-8", "latin-1", "cp1251"])
        cov = wrng.choice([0.3, 0.6, 0.9, 0.95, 1.0])
        ngram = wrng.choice([2, 3, 4])
        # every family as the first one, with --prefixcount and with repeated lines, in every 16 lists
        first = W_FAMILIES[i % 8]
        prefixcount = (i // 8) % 2 == 0
        scale = "hhhkhhhhhkhhhthh"[i % 16]
        dom = [wrng.choice([2000, 5003])] if scale == "h" and wrng.random() < 0.4 else []
        entries, fams = gen_weighted(wrng, enc, scale, first, dominant=dom, extra=0 if scale == "t" else None)
        jobs.append({"name": "W%d" % i, "enc": enc, "cov": cov, "ngram": ngram, "prefixcount": prefixcount, "fams": fams,
                     "rle": sequence_of(wrng, entries, prefixcount)})

    def pump(limit=5):
        running = sum(1 for jb in jobs if jb.get("proc") is not None and jb["proc"].poll() is None)
        for jb in jobs:
            if running >= limit:
                break
            if "proc" not in jb:
                fn = os.path.join(sc, "w_%s.txt" % jb["name"])
                write_training(fn, jb["rle"], jb["enc"], jb["prefixcount"])
                jb["proc"] = train_start(code, fn, jb["name"], jb["enc"], jb["cov"], jb["ngram"], jb["prefixcount"])
                running += 1
    os.makedirs(os.path.join(code, "Rules"), exist_ok=True)     # the trainers that run side by side never create it at once
    pump()
    for i in range(nlists + len(CRAFTED)):
        enc = ctx.rng.choice(["utf-8", "utf-8", "latin-1", "cp1251"])
        cov = ctx.rng.choice([0.3, 0.6, 0.9, 0.95, 1.0])
        ngram = ctx.rng.choice([2, 3, 4])
        entries = trainer_io.gen_entries(ctx.rng, enc, n_distinct=ctx.rng.randint(3, 12))
        passwords = trainer_io.flatten(entries)
        if i >= nlists:
            passwords, enc, cov = CRAFTED[i - nlists]
            passwords = list(passwords)
        if enc == "utf-8" and i % 3 == 0 and i < nlists:
            # letters whose case folding differs from their lower case but whose case mapping is one-to-one
            # (Cherokee small letters), Greek and Cyrillic with capitals, a word with a final sigma (outside the domain)
            # ... and capitals whose TITLE case differs from their upper case (Georgian Mtavruli, the dz/lj/nj digraphs)
            extra = ctx.rng.sample(["ꭰꭱꭲꭳ1", "ꭰꭱꭲꭳꭴꭵ", "Ꭰꭱꭲꭳ", "Ωμέγα7", "κόσμος", "Привет1", "ÀÉÎõü", "ǆabc",
                                    "\u1c90\u10d1\u10d212", "\u01c4abc", "\u01c7ubav9", "\u1c90\u1c91\u10d2", "\u01f1eta"], 5)
            for x in extra:
                passwords += [x] * ctx.rng.choice([1, 2, 5])
        if enc == "utf-8" and i % 3 == 2:
            # legal characters that are neither controls nor line breaks: non-ASCII spaces, format characters, private use
            extra = ctx.rng.sample(["pass\u00a0word1", "love\u00ad2019", "a\u200db7", "\u3000x1", "\ue000abc", "tom\u2009cat", "x\u2060y\ufeffz"], 4)
            for x in extra:
                passwords += [x] * ctx.rng.choice([1, 2])
            dist["lists_with_unusual_blanks_or_format_chars"] = dist.get("lists_with_unusual_blanks_or_format_chars", 0) + 1
        if i % 6 == 4 and i < nlists:
            # text that is NOT in Unicode normal form C next to its NFC twin, as two different training passwords with counts
            # of their own (harness/unicode_pool.py: base letter + combining mark, marks in non-canonical order, singletons
            # such as U+212B / U+037E, Hangul conjoining jamo, CJK compatibility ideographs; q + U+0301 as the stable control).
            # Only utf-8 / utf-16 can hold them; the generated part is cut so that the pipeline model runs on the same list.
            enc = "utf-16" if (i // 6) % 2 == 1 else "utf-8"
            passwords = trainer_io.flatten([e for e in entries if trainer_io.encodable(e[0], enc)][:5])
            for x in unicode_pool.passwords(ctx.rng, 3 + (i // 6) % 2):
                passwords += [x] * ctx.rng.choice([1, 1, 2, 3])
            dist["lists_with_non_nfc_passwords"] = dist.get("lists_with_non_nfc_passwords", 0) + 1
        if enc == "latin-1" and i % 2 == 0:
            passwords += ["caf\u00e9\u00a0noir", "na\u00efve\u00ad1"]
        if i % 4 == 1:
            # a history inside ONE training run: base words seen often enough to split multi-words, a three-word
            # password, and afterwards passwords that are (or end in) its two-word tail
            ws = ctx.rng.sample(["lamp", "table", "chair", "horse", "staple", "battery", "correct", "purple", "monkey", "wizard"], 3)
            hist = []
            for w in ws:
                hist += [w] * 5
            hist += ["".join(ws), ws[1] + ws[2], ws[0].capitalize() + ws[1] + ws[2] + "1", ws[1] + ws[2], "happy" + ws[1] + ws[2]]
            passwords = passwords[:len(passwords) // 2] + hist + passwords[len(passwords) // 2:]
            dist["multiword_histories"] = dist.get("multiword_histories", 0) + 1
        if not passwords:
            continue
        pump()
        fn = os.path.join(sc, "train_%d.txt" % i)
        with open(fn, "wb") as f:
            f.write(training_bytes(passwords, None, enc))
        name = "T%d" % i
        rc, out, err, tree = trainer_io.train_cli(code, fn, name, enc, coverage=cov, ngram=ngram)
        replay = {"passwords": passwords, "encoding": enc, "coverage": cov, "ngram": ngram}
        if rc != 0 or not tree:
            dist["train_failed"] += 1
            continue
        process(ctx, st, code, name, os.path.join(code, "Rules", name), tree, passwords, enc, cov, replay)

    import time
    t_lists = time.time()

    # training histories with large, almost equal counts (--prefixcount lists and repeated lines)
    def weighted(name, enc, cov, ngram, prefixcount, rle, fams, tree, model_cap):
        replay = {"rle": [[p, n] for p, n in rle], "prefixcount": prefixcount, "encoding": enc, "coverage": cov, "ngram": ngram}
        dist["weighted_lists"] += 1
        for f in fams:
            dist["weighted_families"][f] = dist["weighted_families"].get(f, 0) + 1
        m = "prefixcount" if prefixcount else "repeated-lines"
        dist["weighted_modes"][m] = dist["weighted_modes"].get(m, 0) + 1
        dist["weighted_max_count"] = max([dist["weighted_max_count"]] + [n for _, n in rle])
        dist["weighted_lines"] += sum(n for _, n in rle)
        process(ctx, st, code, name, os.path.join(code, "Rules", name), tree, [p for p, _ in rle], enc, cov, replay, rle=rle,
                model_cap=model_cap)
    for jb in jobs:
        while "proc" not in jb:
            pump()
            time.sleep(0.05)
        try:
            rc = jb["proc"].wait(timeout=900)
        except Exception:
            jb["proc"].kill()
            rc = -1
        pump()
        rd = os.path.join(code, "Rules", jb["name"])
        tree = trainer_io.read_tree(rd) if rc == 0 and os.path.isdir(rd) else {}
        if rc != 0 or not tree:
            dist["train_failed"] += 1
            continue
        weighted(jb["name"], jb["enc"], jb["cov"], jb["ngram"], jb["prefixcount"], jb["rle"], jb["fams"], tree, MODEL_LINES[ctx.tier])
    t_big = time.time()
    cases, pipe_cases = st.cases, st.pipe_cases
    # correspondence for the mask round trip (the only new model function of C03): mask_of / lower / apply on real tiles
    shards = []
    per = 150
    for s in range(0, len(cases), per):
        lits = []
        for txt, tbl in cases[s:s + per]:
            t = common.clist(["(%d%%N, (%s, %s, %s))" % (ord(c), common.cstr(l), common.cstr(u), common.cbool(iu)) for c, l, u, iu in tbl])
            lits.append("(%s, %s)" % (common.cstr(txt), t))
        src = ["From Coq Require Import List NArith Bool.", "From Pcfg Require Import Expand ExpandCorr EndToEnd.", "Import ListNotations.",
               "Definition cases : list (str * list (N * (str * str * bool))) := [", ";\n".join(lits), "].",
               "Eval vm_compute in (failing check_mask_roundtrip cases)."]
        shards.append(("m%03d" % (s // per), "\n".join(src)))
    pindex = {}
    light = [c for c in pipe_cases if c[2] <= 60]
    chunks = [light[s0:s0 + 2] for s0 in range(0, len(light), 2)] + [[c] for c in pipe_cases if c[2] > 60]
    # the cases with thousands of lines first: they take longest
    for n, chunk in enumerate(sorted(chunks, key=lambda ch: -sum(c[2] for c in ch))):
        src = list(PIPE_HEADER)
        src.append("Definition cases : list pipe_case := [\n%s\n]." % ";\n".join(c[0] for c in chunk))
        src.append("Eval vm_compute in (map (fun kc => (fst kc * 10 + diagnose (snd kc))%nat) "
                   "(filter (fun kc => negb (check_pipeline (snd kc))) (combine (seq 0 (length cases)) cases))).")
        nm = "p%03d" % n
        shards.append((nm, "\n".join(src)))
        pindex[nm] = chunk
    corr = []
    for name, idx, log in common.run_case_shards("C03", shards):
        if name in pindex:
            if idx is None:
                corr.append(("pipeline:" + name, False, "shard did not compile: " + log[-800:]))
            elif idx:
                k, why = idx[0] // 10, idx[0] % 10
                corr.append(("pipeline:" + name, False, "the pipeline model (Pipeline.v, binary64) and the real trainer -> guesser "
                             "differ: %s; first case: %s" % (DIAG.get(why, "?"), json.dumps(pindex[name][k][1], default=str)[:600])))
            else:
                corr.append(("pipeline:" + name, True, "%d training lists, %d lines" % (len(pindex[name]), sum(c[2] for c in pindex[name]))))
            continue
        if idx is None:
            corr.append(("mask-roundtrip:" + name, False, log[-800:]))
        elif idx:
            corr.append(("mask-roundtrip:" + name, False, "mask_of/lower/apply do not give back the tile for cases %s" % idx[:10]))
        else:
            corr.append(("mask-roundtrip:" + name, True, ""))
    dist["seconds"] = {"small_lists": round(t_lists - ctx.t0, 1), "large_count_lists": round(t_big - t_lists, 1),
                       "coq_cases": round(time.time() - t_big, 1)}
    # the translator tie of the trainer half of the pipeline model (run_trainer = Pipeline.train + the writers)
    import trainer_run_tie
    corr.extend(trainer_run_tie.obligations(("equalities", "instance")))
    rule = ("generated training lists (words, capitalised words, multi-words, digits, years, symbols, keyboard walks, context strings, "
            "spaces, Latin-1 / Cyrillic / Cherokee / Georgian letters and digraphs with a separate title case, three-word passwords followed by "
            "their two-word tails, non-ASCII spaces / format / private-use characters, passwords that are NOT in Unicode normal form C - combining "
            "marks after their base letter, two marks in non-canonical order, singletons (U+212B, U+037E ...), Hangul conjoining jamo, CJK "
            "compatibility ideographs - next to their NFC twins as different passwords with counts of their own (utf-8 / utf-16; also as "
            "alpha words of the large-count lists), e-mails, websites, duplicates) in utf-8 / latin-1 / cp1251, coverage 0.3 / 0.6 / 1, n-gram 2-4; "
            "PLUS training histories with large counts (--prefixcount lists and repeated lines, blocks or first-seen order different from "
            "count order): 2-5 values of ONE rules file - alpha words of one length, digits / symbols of one length, years, keyboard "
            "walks, context strings, capitalisation masks of one length, base structures; every family first in turn, with --prefixcount and with repeated lines, up to two more families per list - seen "
            "100..400 (neighbours 0-3 apart), 1000..3000 or 10000..12000 (neighbours less than 1 percent apart) times each, a rare tail, words often "
            "enough to split multi-words, optionally one dominant password (2000 / 5003 / 10^5; the 10^5 lists are trained beside the "
            "rest of the run); "
            "real trainer.py subprocess, real guesser with skip_brute run to exhaustion, whole language enumerated; every supported training "
            "password must be in it and the probabilities must sum to 1 (1e-9); then the SAME loaded grammar object is used again "
            "(each session with its own new PcfgQueue, driven like CrackingSession.run): a session limited to k guesses and a complete "
            "one, and on a freshly loaded grammar a limited session first and then a complete one - every complete session must equal the "
            "first one guess for guess; non-trivial = password with >= 2 segments, capitals or "
            "non-ASCII; distinct by (password, encoding).  Lists with <= 14 distinct passwords and <= 1500 guesses, the large-count lists "
            "with <= %d lines, plus three fixed lists "
            "at the edges of the trainer's comparisons, are also run through the pipeline MODEL inside coqc (binary64, repr/float() "
            "tables of the interpreter; the model parses every repeated line like the trainer): loaded grammar, base structures and the multiset of guesses must coincide with the real "
            "trainer -> guesser, and the float sanity check f64_arith_ok of C03_reproduced must hold" % MODEL_LINES[ctx.tier])
    return {"evaluations": dist["passwords"], "distinct_nontrivial": st.nontrivial, "rule": rule, "samples": st.samples,
            "corr": corr, "violations": vio, "dist": dist}


def replay(ctx, data):
    inp = data.get("input") or {}
    if "passwords" not in inp and "rle" not in inp:
        return []
    code = common.copy_code_tree(common.scratch())
    sc = common.scratch()
    enc = inp["encoding"]
    fn = os.path.join(sc, "t.txt")
    prefixcount = bool(inp.get("prefixcount"))
    if "rle" in inp:
        rle = [(p, int(n)) for p, n in inp["rle"]]
        write_training(fn, rle, enc, prefixcount)
        distinct = list(dict.fromkeys(p for p, _ in rle))
    else:
        rle = None
        with open(fn, "wb") as f:
            f.write(training_bytes(inp["passwords"], None, enc))
        distinct = list(dict.fromkeys(inp["passwords"]))
    rc, out, err, tree = trainer_io.train_cli(code, fn, "RP", enc, coverage=inp["coverage"], ngram=inp.get("ngram", 4),
                                              prefixcount=prefixcount, timeout=900)
    if rc != 0:
        return []
    from lib_guesser.pcfg_grammar import PcfgGrammar

    def load():
        return common.quiet_call(PcfgGrammar, "RP", os.path.join(code, "Rules", "RP"), "4.7", None, True, False, False, "Grammar")[0]
    g = load()
    items, _, capped, _ = impl_next.full_stream(g, cap=50000, check_heap=False)
    lang = set()
    total = 0.0
    ref = []
    for it in items:
        res = collect(g, it["pt"], None)
        if res:
            lang.update(res[0])
            total += it["prob"] * res[1]
            ref.append((it["pt"], it["prob"], res[0]))
    v = []
    if "password" in inp and inp["password"] not in lang:
        v.append({"sig": "C03:not-reproduced", "what": "training password %r is never generated" % inp["password"], "replay": inp})
    if abs(total - 1.0) > 1e-9:
        v.append({"sig": "C03:sum-not-one", "what": "sum %r" % total, "replay": inp})
    if inp.get("history"):
        # the recorded history of sessions on ONE grammar object; when it starts with the reference session itself
        # ("complete" first) that one has just been run on g, otherwise the history starts on a freshly loaded grammar
        hist = [(k, lim) for k, lim in inp["history"]]
        segs = segment_all(distinct, rle) if rle is not None else segment_all(inp["passwords"])
        supported = [p for p in distinct if segs.get(p) and case_ok(p) and not any(lab in ("E", "W") for _, lab in segs[p])]
        if hist[0][0] == "complete":
            gg, hist = g, hist[1:]
        else:
            gg = load()
        for kind, lim in hist:
            bad = judge_session(ref, run_session(gg, lim), lim, supported)
            if bad:
                v.append({"sig": "C03:later-session:" + bad[0], "what": "history %s: %s" % (json.dumps(inp["history"]), bad[1]), "replay": inp})
                break
    return v
