"""C07: a saved ruleset means the same thing to every tool that loads it.

Implementation = the trainer's writers (save_pcfg_data, omen_file_output,
config_file) and the four real loaders: lib_guesser.grammar_io (through
PcfgGrammar), lib_scorer.grammar_io, lib_guesser.omen.input_file_io.load_rules,
lib_scorer.omen_scorer.OmenScorer; model = TextFile.v (writer, guesser reader
with skip-next-line recovery, scorer reader, OMEN readers) evaluated on the
bytes on disk."""
import configparser
import json
import os

import common
import trainer_io as T
from consts import trainer_io as K

ID = "C07"
TRUSTED = ["harness/translate_writer.py: the reading it gives to its Python subset, and coq/theories/WriterRt.v (statement sequences as "
           "out/bind, try/except Exception, the disk as a finite map from paths to text with os.walk / os.unlink / open 'w' / "
           "write, the codec as the per-character oracle encb, str(float) as the oracle repr, a None Counter key as its str())",
           "CPython repr(float)/float(str) round trip and the character set of repr (checked on every probability on disk)",
           "codecs encode/decode of the ruleset encoding; configparser and json for config.ini",
           "str.splitlines / str.rstrip / int(): probed over all code points on every run, compared with the model on every file"]
TRUSTED.append("translator tie of check_valid: the reading harness/translate_reader.py gives its accepted Python subset and the "
               "runtime coq/theories/ReaderRt.v (`a in b` on strings = substring test, chr, constant ranges, any / all as existsb / forallb)")
ASSUMES = ["alpha values are the lower-cased segment: str.lower() never yields a TAB or a line break from other characters (swept on every run)",
           "C07_roundtrip_*: values contain no TAB and no code point the line iteration splits on (safe_value); this follows from "
           "check_valid when C07_linebreaks_rejected holds, because segments are substrings of accepted passwords",
           "C07_roundtrip_guesser / _scorer: probabilities are finite and >= 0; repr/float are inverse and repr yields only float characters",
           "C07_roundtrip_omen_*: levels in 0..10; the reader decodes with the encoding the writer used (side condition "
           "C07_omen_scorer_reads_ruleset_encoding on the source)"]

TERMINALS = (("Alpha", "A", "count_alpha"), ("Capitalization", "C", "count_alpha_masks"), ("Digits", "D", "count_digits"),
             ("Other", "O", "count_other"), ("Keyboard", "K", "count_keyboard"))


import loader_tie as _loader_tie
TRUSTED = TRUSTED + [_loader_tie.TRUSTED]
import loader2_tie as _loader2_tie
TRUSTED = TRUSTED + [_loader2_tie.TRUSTED]


def mem_omen(rec):
    ot = rec.omen_trainer
    ip = [(d['ip_level'], k) for k, d in ot.grammar.items()]
    ep = [(d['ep_level'], k) for k, d in ot.grammar.items()]
    cp = [(lvl[0], k + last) for k, d in ot.grammar.items() for last, lvl in d['next_letter'].items()]
    ln = [c[0] for c in ot.ln_lookup]
    return ip, ep, cp, ln, list(rec.omen_save["alphabet"])


def bad_chars(strings):
    lb = set(T.char_classes()["linebreak"])
    return sorted({ord(ch) for s in strings for ch in str(s) if ord(ch) in lb or ch == "\t"})


def cps(l):
    return ",".join("U+%04X" % c for c in l)


def all_values(rec):
    P = rec.parser
    vals = []
    for _, _, attr in TERMINALS:
        for c in getattr(P, attr).values():
            vals += list(c)
    vals += list(P.count_years) + list(P.count_context_sensitive) + list(P.count_email_providers) + list(P.count_website_hosts)
    return vals


def oracle(rec, rep):
    """loaded == written == held in memory, for every loader."""
    vio = []
    if not rec.ok:
        return vio
    P, enc, rd, tree = rec.parser, rec.enc, rec.rule_dir, rec.tree
    # an accepted training password holding a character Python itself ends a line at (judged with
    # str.splitlines of the running interpreter, not with anything extracted from the source)
    for p in dict.fromkeys(rec.seqs[0] if rec.seqs else []):
        brk = sorted({ord(ch) for ch in p if len(("a" + ch + "b").splitlines()) > 1})
        if brk:
            pos = "at the end" if all(ord(ch) not in brk for ch in p.rstrip("".join(chr(c) for c in brk))) else "inside"
            vio.append({"sig": "C07:accepted-linebreak:" + cps(brk),
                        "what": "password %r was accepted for training although it holds %s (%s), a character the line-oriented rule "
                                "files cannot carry" % (p, cps(brk), pos), "replay": rep})
            break
    culprit = bad_chars(all_values(rec))
    ctag = (":" + cps(culprit)) if culprit else ""
    expected = {}       # grammar name -> [(values, prob)]
    for folder, letter, attr in TERMINALS:
        for k, c in getattr(P, attr).items():
            expected["%s%d" % (letter, k)] = T.group_lines(T.expected_lines(c))
    expected["Y1"] = T.group_lines(T.expected_lines(P.count_years)) if P.count_years else []
    expected["X1"] = T.group_lines(T.expected_lines(P.count_context_sensitive)) if P.count_context_sensitive else []
    expected["E"] = T.group_lines(T.expected_lines(P.count_email_providers)) if P.count_email_providers else []
    expected["W"] = T.group_lines(T.expected_lines(P.count_website_hosts)) if P.count_website_hosts else []
    # ---- guesser
    g, err, _ = T.load_guesser(rd)
    if g is None:
        vio.append({"sig": "C07:guesser-cannot-load" + ctag,
                    "what": "PcfgGrammar cannot load the ruleset the trainer just wrote (%s, %s)%s" % (
                        enc, err, "; values on disk contain " + cps(culprit) if culprit else ""), "replay": rep})
    else:
        for name, exp in expected.items():
            got = [(list(x["values"]), x["prob"]) for x in g.grammar.get(name, [])]
            if got != exp:
                vio.append({"sig": "C07:guesser-differs" + ctag, "what": "guesser grammar[%r] = %r, the trainer held %r" % (name, got[:3], exp[:3]),
                            "replay": rep})
                break
        extra = [n for n in g.grammar if n not in expected and n != "M" and g.grammar[n]]
        if extra:
            vio.append({"sig": "C07:guesser-extra", "what": "guesser loaded variables the trainer did not hold: %r" % extra[:4], "replay": rep})
        base_exp = T.expected_lines(P.count_base_structures)
        got = [(b["prob"], [r for r in b["replacements"] if not r.startswith("C")]) for b in g.base]
        want = []
        for v, p in base_exp:
            reps, cur = [], ""
            for ch in v:
                if ch.isalpha():
                    if cur:
                        reps.append(cur)
                    cur = ch
                else:
                    cur += ch
            reps.append(cur)
            want.append((p, reps))
        if got != want:
            vio.append({"sig": "C07:guesser-base-differs", "what": "guesser base structures %r, trainer %r" % (got[:3], want[:3]), "replay": rep})
        # OMEN tables
        ip, ep, cp, ln, alpha = mem_omen(rec)
        og = g.omen_grammar
        ng = rec.ngram
        w_ip = {l: [k for lv, k in ip if lv == l] for l in range(11)}
        w_ep = {k: lv for lv, k in ep}
        w_cp = {}
        for lv, k in cp:
            w_cp.setdefault(k[:-1], {}).setdefault(lv, []).append(k[-1])
        w_ln = {l: [i + 1 - (ng - 1) for i, lv in enumerate(ln) if lv == l and i + 1 >= ng] for l in range(11)}
        for nm, got, want in (("ip", og.get("ip"), w_ip), ("ep", og.get("ep"), w_ep), ("cp", og.get("cp"), w_cp),
                              ("ln", og.get("ln"), w_ln), ("alphabet", og.get("alphabet"), alpha), ("ngram", og.get("ngram"), ng)):
            if got != want:
                vio.append({"sig": "C07:omen-guesser-differs:" + nm + ctag, "what": "guesser omen_grammar[%r] differs from the trainer's tables" % nm,
                            "replay": rep})
        # ... and with what is on disk (independent parse: split at LF bytes and at the last TAB)
        for folder, letter, attr in TERMINALS:
            for rel in sorted(f for f in tree if f.startswith(folder + "/")):
                name = letter + rel.split("/")[1].split(".")[0]
                try:
                    disk = [(vs, float(p)) for vs, p in T.group_lines(T.parse_rule_file(tree[rel], enc))]
                except Exception:      # noqa: BLE001
                    continue
                got = [(list(x["values"]), x["prob"]) for x in g.grammar.get(name, [])]
                if got != disk:
                    vio.append({"sig": "C07:guesser-differs-from-disk" + ctag, "what": "guesser grammar[%r] = %r, %s holds %r" % (name, got[:3], rel, disk[:3]),
                                "replay": rep})
                    break
    # ---- scorer
    s, ok, serr = T.load_scorer(rd)
    if not ok:
        vio.append({"sig": "C07:scorer-cannot-load" + ctag, "what": "lib_scorer.grammar_io.load_grammar fails on the ruleset (%s) %s%s" % (
            enc, serr.strip()[-120:], "; values on disk contain " + cps(culprit) if culprit else ""), "replay": rep})
    else:
        for folder, letter, attr in TERMINALS:
            mem = getattr(P, attr)
            got = getattr(s, attr)
            want = {k: dict(T.expected_lines(c)) for k, c in mem.items()}
            if {k: dict(v) for k, v in got.items()} != want:
                vio.append({"sig": "C07:scorer-differs:" + attr + ctag, "what": "scorer %s differs from what the trainer wrote" % attr, "replay": rep})
        for attr, mem in (("count_years", P.count_years), ("count_context_sensitive", P.count_context_sensitive),
                          ("count_base_structures", P.count_base_structures)):
            want = dict(T.expected_lines(mem)) if mem else {}
            if dict(getattr(s, attr)) != want:
                vio.append({"sig": "C07:scorer-differs:" + attr + ctag, "what": "scorer %s = %r, trainer %r" % (attr, dict(getattr(s, attr)), want),
                            "replay": rep})
    # ---- OMEN scorer
    o, oerr = T.load_omen_scorer(rd, enc)
    ip, ep, cp, ln, alpha = mem_omen(rec)
    non_ascii = sorted({ch for _, k in ip + cp for ch in k if ord(ch) > 127})
    if o is None:
        vio.append({"sig": "C07:omen-scorer-cannot-load:" + oerr.split(":")[0] + ctag,
                    "what": "OmenScorer(%r ruleset) raises %s%s" % (enc, oerr[:160], "; n-grams contain %r" % "".join(non_ascii[:6]) if non_ascii else ""),
                    "replay": rep})
    else:
        if o.ip != {k: lv for lv, k in ip} or o.cp != {k: lv for lv, k in cp}:
            vio.append({"sig": "C07:omen-scorer-differs" + ctag, "what": "OmenScorer ip/cp differ from the trainer's tables (%s ruleset)%s" % (
                enc, "; n-grams contain %r" % "".join(non_ascii[:6]) if non_ascii else ""), "replay": rep})
        if o.ln != ['10'] + ln:
            vio.append({"sig": "C07:omen-scorer-differs:ln", "what": "OmenScorer ln %r vs %r" % (o.ln[:5], ln[:4]), "replay": rep})
    # ---- config lists = files that exist
    cfg = configparser.ConfigParser()
    try:
        cfg.read_file(open(os.path.join(rd, "config.ini")))
    except Exception as e:      # noqa: BLE001
        vio.append({"sig": "C07:config-unreadable", "what": repr(e), "replay": rep})
        return vio
    for sec, folder in (("BASE_A", "Alpha"), ("BASE_D", "Digits"), ("BASE_O", "Other"), ("BASE_K", "Keyboard"), ("BASE_X", "Context"),
                        ("BASE_Y", "Years"), ("CAPITALIZATION", "Capitalization")):
        names = json.loads(cfg[sec]["filenames"])
        have = sorted(os.listdir(os.path.join(rd, folder)))
        if sorted(names) != have or len(set(names)) != len(names) or cfg[sec]["directory"] != folder:
            vio.append({"sig": "C07:config-lists:" + sec, "what": "config.ini [%s] lists %r, %s/ holds %r" % (sec, names, folder, have), "replay": rep})
    if json.loads(cfg["START"]["filenames"]) != ["grammar.txt"] or not os.path.exists(os.path.join(rd, "Grammar", "grammar.txt")):
        vio.append({"sig": "C07:config-lists:START", "what": "START does not name Grammar/grammar.txt", "replay": rep})
    if cfg["TRAINING_DATASET_DETAILS"]["encoding"] != enc:
        vio.append({"sig": "C07:config-encoding", "what": "config.ini records encoding %r" % cfg["TRAINING_DATASET_DETAILS"]["encoding"], "replay": rep})
    # ---- every float on disk survives repr/float and uses only float characters
    for rel, data in tree.items():
        if rel.endswith(".txt") and rel.split("/")[0] not in ("Omen",):
            try:
                for v, ptxt in T.parse_rule_file(data, "ascii" if rel.split("/")[0] in ("Grammar", "Prince") else enc):
                    p = float(ptxt)
                    if repr(p) != ptxt or any(ch not in "0123456789.e+-infa" for ch in ptxt):
                        vio.append({"sig": "C07:repr", "what": "%s: %r" % (rel, ptxt), "replay": rep})
            except Exception:      # noqa: BLE001 - malformed files are the loaders' business above
                pass
    return vio


# ---------------------------------------------------------------- Coq cases

def text_of(data, enc):
    import codecs
    return codecs.decode(data, enc, "surrogateescape")


def c_guesser_case(path, data, enc):
    got = T.guesser_file(path, enc)
    exp = T.copt(got, lambda gs: T.clist(gs, lambda g: T.cpair(T.cstrs(g[0]), T.cf(g[1])), "(list str * float)"))
    return T.cpair(T.c_file_case(text_of(data, enc), enc), exp)


def c_scorer_case(path, data, enc):
    ok, items = T.scorer_file(path, enc)
    return T.cpair(T.c_file_case(text_of(data, enc), enc),
                   T.cpair(common.cbool(ok), T.clist(items, lambda kv: T.cpair(T.cs(kv[0]), T.cf(kv[1])), "(str * float)")))


def c_base_case(rd, data):
    from lib_guesser.grammar_io import _load_base_structures
    bs = []
    ok, so, se = common.quiet_call(_load_base_structures, bs, rd, False, "Grammar")
    exp = T.copt([(b["prob"], b["replacements"]) for b in bs] if ok else None,
                 lambda l: T.clist(l, lambda b: T.cpair(T.cf(b[0]), T.cstrs(b[1])), "(float * list str)"))
    return T.cpair(T.c_file_case(data.decode("utf-8", "surrogateescape"), "utf-8"), exp)


def c_levels(items):
    return T.clist(items, lambda it: T.cpair(T.cZ(it[0]), T.cs(it[1])), "(Z * str)")


def c_omen_guesser_case(rd, enc, ngram):
    from lib_guesser.omen.input_file_io import load_rules
    od = os.path.join(rd, "Omen")
    g = {}
    try:
        ok, so, se = common.quiet_call(load_rules, od, g)
    except BaseException:      # noqa: BLE001
        ok = False

    def rd_(name, e):
        try:
            return open(os.path.join(od, name), "rb").read().decode(e)
        except UnicodeDecodeError:
            return None
    texts = [rd_("IP.level", enc), rd_("EP.level", enc), rd_("CP.level", enc), rd_("LN.level", "utf-8"), rd_("alphabet.txt", enc)]
    if any(t is None for t in texts):
        return None
    if ok:
        exp = "(Some (%s, %s, %s, %s, %s))" % (
            T.clist([g["ip"][l] for l in range(11)], T.cstrs, "list str"),
            T.clist(g["ep"].items(), lambda kv: T.cpair(T.cs(kv[0]), T.cZ(kv[1])), "(str * Z)"),
            T.clist(g["cp"].items(), lambda kv: T.cpair(T.cs(kv[0]), T.clist(kv[1].items(), lambda lc: T.cpair(T.cZ(lc[0]), T.cs("".join(lc[1]))),
                                                                           "(Z * str)")), "(str * list (Z * str))"),
            T.clist([g["ln"][l] for l in range(11)], lambda l: T.clist(l, T.cZ, "Z"), "list Z"),
            T.cstrs(g["alphabet"]))
    else:
        exp = "None"
    return ("{| og_ip := %s; og_ep := %s; og_cp := %s; og_ln := %s; og_alpha := %s; og_ngram := %s; og_exp := %s |}"
            % (T.cs(texts[0]), T.cs(texts[1]), T.cs(texts[2]), T.cs(texts[3]), T.cs(texts[4]), T.cZ(ngram), exp))


def c_omen_scorer_case(rd, enc, uses_enc):
    od = os.path.join(rd, "Omen")
    o, err = T.load_omen_scorer(rd, enc)

    def rd_(name, e):
        try:
            return open(os.path.join(od, name), "rb").read().decode(e)
        except UnicodeDecodeError:
            return None
    import locale
    e = enc if uses_enc else locale.getpreferredencoding(False)
    ipt, cpt, lnt = rd_("IP.level", e), rd_("CP.level", e), rd_("LN.level", locale.getpreferredencoding(False))
    if lnt is None:
        return None
    if o is not None:
        exp = "(Some (%s, %s, %s, %s))" % (
            T.clist(o.ip.items(), lambda kv: T.cpair(T.cs(kv[0]), T.cZ(kv[1])), "(str * Z)"),
            T.clist(o.cp.items(), lambda kv: T.cpair(T.cs(kv[0]), T.cZ(kv[1])), "(str * Z)"),
            T.clist(o.ln[1:], T.cZ, "Z"), T.cZ(o.ngram))
    else:
        exp = "None"
    return ("{| os_ip := %s; os_cp := %s; os_ln := %s; os_exp := %s |}" % (T.copt(ipt, T.cs), T.copt(cpt, T.cs), T.cs(lnt), exp))


def corrupt(rng, data, enc):
    """A damaged copy of a rule file (exercises the readers' recovery paths)."""
    lines = data.split(b"\n")
    k = rng.randrange(max(1, len(lines) - 1))
    how = rng.choice(["notab", "badprob", "blank", "dup", "minus1", "ls", "ps", "extra-tab", "nan", "undec", "space-prob", "crlf", "vt"])
    ln = lines[k]
    try:
        if how == "notab":
            ln = ln.replace(b"\t", b" ")
        elif how == "badprob":
            ln = ln.rpartition(b"\t")[0] + b"\tzero"
        elif how == "blank":
            ln = b""
        elif how == "dup":
            lines.insert(k, ln)
        elif how == "minus1":
            lines[0] = lines[0].rpartition(b"\t")[0] + b"\t-1.0"
            ln = lines[k]
        elif how == "ls" and enc == "utf-8":
            ln = "x y".encode(enc) + ln
        elif how == "ps" and enc == "utf-8":
            ln = "x ".encode(enc) + ln
        elif how == "extra-tab":
            ln = ln + b"\textra"
        elif how == "nan":
            ln = ln.rpartition(b"\t")[0] + rng.choice([b"\tnan", b"\tinf", b"\t1e400", b"\t 0.5 ", b"\t1_0", b"\t0x10", b"\t-0.0"])
        elif how == "undec":
            ln = {"utf-8": b"\xff", "cp1252": b"\x81", "cp1251": b"\x98", "latin-1": b"\xe9"}[enc] + ln
        elif how == "space-prob":
            ln = ln.replace(b"\t", b"\t ")
        elif how == "crlf":
            ln = ln + b"\r"
        elif how == "vt":
            ln = b"a\x0bb" + ln
    except Exception:      # noqa: BLE001
        pass
    lines[k] = ln
    return how, b"\n".join(lines)


def seeds_for(rng, cp, dominant=False):
    """The special character at the END of a password, alone, doubled at the end, and once at a random place; with
    `dominant` the one-character value is the most frequent of its list, i.e. the FIRST line of its terminal file."""
    c = chr(cp)
    w, w2 = rng.choice(T.WORDS[:12]), rng.choice(T.WORDS[:12])
    return [(w + c, rng.choice([1, 2])), (c, 1), (w2 + c + c, 1), (T.seed_with_char(rng, None, cp), 1),
            (c + w2, 40 if dominant else 1)]


def gen_run(rng, i, enc, pick):
    entries = T.gen_entries(rng, enc, n_distinct=rng.randint(5, 12))
    for j, cp in enumerate(pick):
        for e in seeds_for(rng, cp, dominant=(j == 0 and i % 2 == 0)):
            entries.insert(rng.randint(0, len(entries)), e)
    # non-ASCII words long enough to enter the OMEN n-grams
    entries.append((rng.choice(T.NONASCII[enc]) + rng.choice(T.WORDS), rng.choice([1, 2, 3])))
    entries.append((" " + rng.choice(T.WORDS) + " ", 2))
    if i % 4 == 1:
        # terminals far longer than any everyday password (one run of 257-300 letters / digits / symbols): a length-indexed file
        # of their own that config.ini names and both loaders read back
        k = rng.randint(257, 300)
        entries.append((rng.choice("qxz") * k + "1", 1))
        entries.append((rng.choice(T.WORDS[:6]) + rng.choice("37") * (k + 3), 1))
        entries.append((rng.choice(T.WORDS[:6]) + rng.choice("!$") * (k - 1), 2))
    entries = [(p, c) for p, c in entries if T.encodable(p, enc)]
    data = T.build_file(rng, entries, enc, "hex" if pick else rng.choice(["plain", "mixed"]), b"\n")
    return entries, data


def train(sc, tag, enc, data, cov, ngram):
    p = os.path.join(sc, "l%s.txt" % tag)
    with open(p, "wb") as f:
        f.write(data)
    return T.train_inprocess(p, enc, os.path.join(sc, "R%s" % tag), coverage=cov, ngram=ngram)


def run(ctx):
    rng = ctx.rng
    sc = common.scratch()
    n = ctx.scale(32, 320)
    n_corrupt = ctx.scale(90, 700)
    try:
        uses_enc = K.extract_omen_scorer()["omen_scorer_uses_ruleset_encoding"]
    except Exception:      # noqa: BLE001
        uses_enc = False
    vio, samples = [], []
    G = {"guesser": [], "scorer": [], "base": [], "write": [], "wlevels": [], "walpha": [], "wln": [], "omeng": [], "omens": [],
         "cfg": []}
    dist = {"runs": 0, "encodings": {}, "special_chars_in_values": {}, "files_loaded": 0, "corrupted_files": {}, "classes_seeded": {},
            "rulesets_all_loaders_ok": 0, "failed_runs": 0}
    seen, nontrivial = set(), 0
    C = T.char_classes()
    lbset, wsset, fmtset = set(C["linebreak"]), set(C["whitespace"]), set(C["format"])
    # minimal targeted probes first (smallest replays): R10 and R11
    probes = [("utf-8", [("abc\u2029", 2), ("password1", 3), ("love2019", 1)], 0.6), ("latin-1", [("caf\u00e91", 3), ("caf\u00e9teria", 2), ("password", 2)], 0.6),
              # a training file that starts with a byte order mark, read with -e utf-8: U+FEFF is a legal character of the
              # first password and heads its terminal list
              ("utf-8", [("\ufeffpassword1", 5), ("password1", 3), ("love2019", 1), ("\ufeff", 2)], 0.6)]
    plan = []
    todo = {enc: [c for c in T.special_chars_for(enc, rng, n_format=4)] for enc in T.ENCODINGS}
    weights = {"utf-8": 0.45, "latin-1": 0.18, "cp1251": 0.18, "cp1252": 0.19}
    for enc in T.ENCODINGS:
        k = max(2, round(n * weights[enc]))
        per = max(1, -(-len(todo[enc]) // k))
        for j in range(k):
            pick = todo[enc][j * per:(j + 1) * per]
            plan.append((enc, pick))
    corrupt_pool = []
    for i, item in enumerate(probes + plan):
        if len(item) == 3:
            enc, entries, cov = item
            pick = []
            data = T.build_file(rng, entries, enc, "hex", b"\n")
        else:
            enc, pick = item
            entries, data = gen_run(rng, i, enc, pick)
            cov = rng.choice([0.6, 0.6, 0.25, 1.0])
        ngram = rng.choice([4, 4, 3, 2])
        rec = train(sc, str(i), enc, data, cov, ngram)
        rep = {"enc": enc, "coverage": cov, "ngram": ngram, "file": data.hex()}
        if rec.exc:
            vio.append({"sig": "C07:trainer-aborts", "what": "run_trainer raised %s" % rec.exc, "replay": rep})
        if not rec.ok:
            dist["failed_runs"] += 1
            continue
        dist["runs"] += 1
        dist["encodings"][enc] = dist["encodings"].get(enc, 0) + 1
        v = oracle(rec, rep)
        vio += v
        dist["rulesets_all_loaders_ok"] += not v
        vals = all_values(rec)
        inval = sorted({ord(ch) for s in vals for ch in str(s) if ord(ch) in lbset | wsset | fmtset})
        for c in inval:
            cls = "linebreak" if c in lbset else "whitespace" if c in wsset else "format"
            dist["classes_seeded"][cls] = dist["classes_seeded"].get(cls, 0) + 1
            dist["special_chars_in_values"]["U+%04X" % c] = dist["special_chars_in_values"].get("U+%04X" % c, 0) + 1
        key = (enc, data)
        if key not in seen:
            seen.add(key)
            if inval or any(ord(ch) > 127 for s in vals for ch in str(s)):
                nontrivial += 1
        info = {"enc": enc, "file": data.hex(), "coverage": cov, "ngram": ngram}
        # ---- Coq cases from this ruleset
        rd = rec.rule_dir
        for rel, fdata in sorted(rec.tree.items()):
            top = rel.split("/")[0]
            if not rel.endswith(".txt") or top in ("Omen", "Grammar", "Prince", "Masks"):
                continue
            path = os.path.join(rd, rel)
            dist["files_loaded"] += 1
            G["guesser"].append((c_guesser_case(path, fdata, enc), dict(info, rule_file=rel)))
            G["scorer"].append((c_scorer_case(path, fdata, enc), dict(info, rule_file=rel)))
            if fdata and len(corrupt_pool) < 400:
                corrupt_pool.append((enc, rel, fdata))
        G["base"].append((c_base_case(rd, rec.tree["Grammar/grammar.txt"]), dict(info, rule_file="Grammar/grammar.txt")))
        G["guesser"].append((c_guesser_case(os.path.join(rd, "Omen", "pcfg_omen_prob.txt"), rec.tree["Omen/pcfg_omen_prob.txt"], enc),
                             dict(info, rule_file="Omen/pcfg_omen_prob.txt")))
        P = rec.parser
        for folder, letter, attr in TERMINALS:
            for k, c in getattr(P, attr).items():
                rel = "%s/%d.txt" % (folder, k)
                lines = T.expected_lines(c)
                if rel not in rec.tree:
                    vio.append({"sig": "C07:file-missing", "what": "the trainer holds %d value(s) of %s length %d in memory (e.g. %r...) but wrote no "
                                "%s: an accepted training value is in no rules file (config.ini %s it)"
                                % (len(c), folder, k, next(iter(c))[:24], rel,
                                   "still names" if ("%d.txt" % k) in json.loads(_cfg(rd)[{"A": "BASE_A", "C": "CAPITALIZATION", "D": "BASE_D",
                                                                                               "O": "BASE_O", "K": "BASE_K"}[letter]]["filenames"])
                                   else "does not name"), "replay": dict(rep)})
                    continue
                G["write"].append((T.cpair(T.cpair(T.clist(lines, lambda vp: T.cpair(T.cs(vp[0]), T.cf(vp[1])), "(str * float)"),
                                                   T.repr_table([p for _, p in lines])), T.cs(text_of(rec.tree[rel], enc))),
                                   dict(info, rule_file=rel)))
            G["cfg"].append((T.cpair(T.c_lcounts(getattr(P, attr)),
                                     T.cstrs(json.loads(_cfg(rd)[{"A": "BASE_A", "C": "CAPITALIZATION", "D": "BASE_D", "O": "BASE_O",
                                                                  "K": "BASE_K"}[letter]]["filenames"]))), dict(info, rule_file="config.ini")))
        ip, ep, cp, ln, alpha = mem_omen(rec)
        for nm, its in (("IP.level", ip), ("EP.level", ep), ("CP.level", cp)):
            G["wlevels"].append((T.cpair(c_levels(its), T.cs(text_of(rec.tree["Omen/" + nm], enc))), dict(info, rule_file="Omen/" + nm)))
        G["walpha"].append((T.cpair(T.cstrs(alpha), T.cs(text_of(rec.tree["Omen/alphabet.txt"], enc))), dict(info, rule_file="Omen/alphabet.txt")))
        G["wln"].append((T.cpair(T.clist(ln, T.cZ, "Z"), T.cs(rec.tree["Omen/LN.level"].decode("ascii"))), dict(info, rule_file="Omen/LN.level")))
        cg = c_omen_guesser_case(rd, enc, ngram)
        if cg:
            G["omeng"].append((cg, dict(info, rule_file="Omen/*")))
        co = c_omen_scorer_case(rd, enc, uses_enc)
        if co:
            G["omens"].append((co, dict(info, rule_file="Omen/* (scorer)")))
        if len(samples) < 4 and i % 8 == 1:
            samples.append({"encoding": enc, "seeded": ["U+%04X" % c for c in pick], "values_with_specials": [s for s in vals if any(
                ord(ch) in lbset | wsset | fmtset for ch in str(s))][:5], "violations_here": sorted({x["sig"] for x in v})[:4]})
    # ---- encodings outside the four of the Coq file model (oracle only): a ruleset trained with utf-8-sig (what chardet reports
    #      for a file with a byte order mark) carries a BOM in every rule file; every loader must read what the trainer held
    for j, enc2 in enumerate(["utf-8-sig", "utf-16", "utf-8-sig"][:ctx.scale(2, 3)]):
        entries = T.gen_entries(rng, "utf-8", n_distinct=rng.randint(4, 8)) + [("password1", 6), ("12345", 3), ("Zo\u00eb!", 2)]
        raw = ("\n".join(T.flatten(entries)) + "\n").encode(enc2)
        rec = train(sc, "x%d" % j, enc2, raw, 0.6, 4)
        rep = {"enc": enc2, "coverage": 0.6, "ngram": 4, "file": raw.hex()}
        dist["other_encoding_runs"] = dist.get("other_encoding_runs", 0) + 1
        if rec.exc:
            vio.append({"sig": "C07:trainer-aborts", "what": "run_trainer raised %s (%s)" % (rec.exc, enc2), "replay": rep})
        if rec.ok:
            vio += oracle(rec, rep)
    # ---- an existing rule directory trained AGAIN under the same name: the second list has no digits, walks,
    #      years or context strings, so whole categories become empty; config.ini must still name exactly
    #      the files that exist (checked by the same oracle after each step)
    plain_words = ["password", "love", "monkey", "dragon", "secret", "summer", "shadow", "football", "Princess", "LetMeIn"]
    for j in range(ctx.scale(3, 24)):
        enc = T.ENCODINGS[j % len(T.ENCODINGS)]
        first = T.gen_entries(rng, enc, n_distinct=rng.randint(6, 10), kinds=["wd", "walk", "year", "ctx", "wsd", "digits", "dw", "na"])
        first += [("1qaz" + rng.choice(plain_words), 2), (rng.choice(plain_words) + "2019", 1), (rng.choice(plain_words) + "#1", 1), ("123456", 2)]
        second = [(rng.choice(plain_words) + rng.choice(["", "!", " ", "!!", "?"]), rng.choice([1, 2, 3])) for _ in range(rng.randint(3, 7))]
        second.append((rng.choice(T.NONASCII[enc]) if enc != "utf-8" else "\u00fcber", 1))
        files = [T.build_file(rng, [e for e in first if T.encodable(e[0], enc)], enc, "plain", b"\n"),
                 T.build_file(rng, [e for e in second if T.encodable(e[0], enc)], enc, "plain", b"\n")]
        cov = rng.choice([0.6, 1.0])
        rep = {"enc": enc, "coverage": cov, "ngram": 4, "steps": [f.hex() for f in files]}
        rd = os.path.join(sc, "RT%d" % j)
        for step, data in enumerate(files):
            pth = os.path.join(sc, "rt%d_%d.txt" % (j, step))
            with open(pth, "wb") as f:
                f.write(data)
            rec = T.train_inprocess(pth, enc, rd, coverage=cov, ngram=4)
            if rec.exc:
                vio.append({"sig": "C07:trainer-aborts", "what": "run_trainer raised %s (retraining step %d)" % (rec.exc, step + 1), "replay": rep})
            if not rec.ok:
                dist["failed_runs"] += 1
                break
            v = oracle(rec, rep)
            for x in v:
                x["what"] = "[rule directory trained %s] %s" % ("for the first time" if step == 0 else "again, second list without digits/walks/years", x["what"])
            vio += v
            dist["retrain_steps"] = dist.get("retrain_steps", 0) + 1
    # ---- damaged files: the recovery paths of the two grammar readers
    cdir = os.path.join(sc, "corrupt")
    os.makedirs(cdir, exist_ok=True)
    for j in range(min(n_corrupt, 8 * len(corrupt_pool))):
        enc, rel, fdata = rng.choice(corrupt_pool)
        how, bad = corrupt(rng, fdata, enc)
        dist["corrupted_files"][how] = dist["corrupted_files"].get(how, 0) + 1
        path = os.path.join(cdir, "c%d.txt" % j)
        with open(path, "wb") as f:
            f.write(bad)
        info = {"enc": enc, "damaged": how, "bytes": bad.hex()}
        G["guesser"].append((c_guesser_case(path, bad, enc), info))
        G["scorer"].append((c_scorer_case(path, bad, enc), info))
    corr, bad = T.run_shards("C07", [
        ("guesser", "file_case * option (list (list str * float))", "check_guesser_file", G["guesser"]),
        ("scorer", "file_case * (bool * list (str * float))", "check_scorer_file", G["scorer"]),
        ("base", "file_case * option (list (float * list str))", "check_base_file", G["base"]),
        ("write", "list (str * float) * list (float * str) * str", "check_write_file", G["write"]),
        ("wlevels", "list (Z * str) * str", "check_write_levels", G["wlevels"]),
        ("walpha", "list str * str", "check_write_alphabet", G["walpha"]),
        ("wln", "list Z * str", "check_write_ln", G["wln"]),
        ("omeng", "omen_guesser_case", "check_omen_guesser", G["omeng"]),
        ("omens", "omen_scorer_case", "check_omen_scorer", G["omens"]),
        ("cfg", "list (N * list (str * N)) * list str", "check_config_lists", G["cfg"])], per=60)
    import writer_tie
    corr = writer_tie.obligations(["save", "config"]) + corr
    # lower-casing (alpha values are stored lower-cased) cannot create a TAB or a line break: sweep of the interpreter
    lbt = set(C["linebreak"]) | {9}
    bad_lower = [c for c in range(0x110000) if c not in lbt and any(ord(d) in lbt for d in chr(c).lower())]
    import reader_tie
    corr += reader_tie.obligations()
    corr.append(("probe:lower-keeps-values-safe", not bad_lower,
                 "str.lower() of %s yields a TAB / line break" % cps(bad_lower[:5]) if bad_lower else "all 0x110000 code points"))
    # the side conditions of Props/C07.v, spelled out for the evidence
    from lib_trainer.trainer_file_input import check_valid
    accepted_lb = [c for c in C["linebreak"]
                   if any(check_valid(x) for x in ("a" + chr(c) + "b", "a" + chr(c), chr(c), "a" + chr(c) + chr(c), chr(c) + "a"))]
    corr.append(("side-condition:linebreaks-rejected", not accepted_lb,
                 "the running check_valid accepts a password holding %s (first / middle / last / alone / doubled), on which codecs line "
                 "iteration / str.splitlines split" % cps(accepted_lb) if accepted_lb else ""))
    corr.append(("side-condition:omen-scorer-reads-ruleset-encoding", bool(uses_enc),
                 "" if uses_enc else "OmenScorer._load_omen opens IP.level / CP.level without the ruleset encoding"))
    rule = ("trainer runs on lists seeded so that every probed white-space / line-break character the encoding can represent and a "
            "sample of format characters occurs at the END of a password, alone, doubled at the end, at the start and at a random "
            "place (hex form, so the character reaches check_valid whole); rule directories trained twice under the same name, the "
            "second list leaving whole categories empty; encodings "
            "utf-8 / latin-1 / cp1251 / cp1252, ngram 2..4; then PcfgGrammar, lib_scorer load_grammar, load_rules and OmenScorer on the "
            "written ruleset, compared value-for-value with the trainer's counters and tables; config.ini lists vs directory "
            "listings; plus damaged copies of the files for the readers' recovery paths; non-trivial = a value on disk holds a "
            "special or non-ASCII character; distinct by (encoding, training bytes)")
    # second tie to the source (translator): the readers re-translated from the Python text equal the model readers
    import loader_tie
    corr.append(loader_tie.obligation())
    # ... and the remaining readers (OMEN files for guesser and scorer, the walk over config.ini)
    import loader2_tie
    corr += loader2_tie.obligations("C07")
    known_expl = all(("U+2029" in b or "omen-scorer" in b) for b in [x["sig"] for x in vio]) if vio else False
    return {"evaluations": dist["runs"] * 4 + sum(dist["corrupted_files"].values()) * 2, "distinct_nontrivial": nontrivial, "rule": rule,
            "samples": samples, "corr": corr, "violations": vio, "dist": dist, "corr_explained_by_known": known_expl}


_cfg_cache = {}


def _cfg(rd):
    if rd not in _cfg_cache:
        c = configparser.ConfigParser()
        c.read_file(open(os.path.join(rd, "config.ini")))
        _cfg_cache[rd] = c
    return _cfg_cache[rd]


def replay(ctx, data):
    inp = data.get("input") or {}
    sc = common.scratch()
    if "steps" in inp:
        out = []
        rd = os.path.join(sc, "RTrp")
        for step, hx in enumerate(inp["steps"]):
            pth = os.path.join(sc, "rtrp_%d.txt" % step)
            with open(pth, "wb") as f:
                f.write(bytes.fromhex(hx))
            rec = T.train_inprocess(pth, inp["enc"], rd, coverage=inp.get("coverage", 0.6), ngram=inp.get("ngram", 4))
            out += oracle(rec, inp)
        return out
    if "file" not in inp:
        return []
    rec = train(sc, "rp", inp["enc"], bytes.fromhex(inp["file"]), inp.get("coverage", 0.6), inp.get("ngram", 4))
    return oracle(rec, inp)
