"""C13: a non-zero score is a promise the guesser keeps.

Implementation = lib_scorer.PCFGPasswordScorer (load_grammar,
create_multiword_detector, parse) and the real PcfgGrammar of /repo's working
tree, both on rulesets written by the real trainer (trainer.py run as a
subprocess on a scratch copy of the code tree).  Model = Scorer.score over
binary64 floats (same multiplication order) with the segmentation pipeline of
C05 and the scorer's own multi-word detector rebuilt from the loaded tables.
Direct oracle = every non-zero score against the language enumerated with the
real PcfgGrammar.create_guesses (print_guess replaced by a collector)."""
import copy
import json
import os
import re
import subprocess
from collections import Counter

import common
import impl_next
import scorer_tie
import seg_gen
from consts import trainer_seg
from props import C05

ID = "C13"
TRUSTED = [
    "the harness parses label / base-structure strings by a regular expression and reads the tables from the loaded "
    "scorer object (reading the files is C07's business)",
    "OMEN score not modelled (a stub replaces scorer.omen); the p/o category that depends on it is not compared",
    "Unicode facts of the pool characters as for C05 (gen/Unicode_gen.v), incl. str.upper()",
    "equality 'up to floating-point rounding' between scorer and guesser products is measured (<= 1e-12 relative), not proved",
    "translator tie (harness/translate_scorer.py, runtime ScorerRt.v): the reading of the accepted Python subset of "
    "PCFGPasswordScorer.parse (statement sequences as out/bind, try/except KeyError, for loops as folds, the detectors as "
    "oracles that return the section list they edited, Counters reading 0 for a missing key, dicts raising KeyError, int 0 / "
    "float 0.0 identified); self.omen.parse is an oracle (C11); the detectors are the models of Detect.v / Segment.v",
]
ASSUMES = [
    "C13_promise_Q: exact rational arithmetic (QProb); non-empty string; no hypothesis on the characters (the scorer's rebuild "
    "check is the mask round trip with the interpreter's upper() as oracle; side condition C13_source_rebuild_check)",
    "the guesser's side is all_preterminals (NextSpec) / denote (Expand) of guesser_view rs, the scorer's tables grouped the way "
    "the guesser's loader groups them; that this view equals what the real PcfgGrammar loads from the same files is a "
    "correspondence obligation of every run (guesser-view:*), as is the enumerated language (score:*)",
    "C13_promise_emitted additionally assumes wf (guesser_view rs) (probabilities in [0,1], groups in non-increasing order: "
    "what the trainer writes) and a queue meeting the heap contract (C02's hypotheses)",
]

TOL = 1e-12


def case_ok_char(c):
    lo = c.lower() if len(c.lower()) == 1 else c
    if c.isupper():
        return lo.upper() == c
    return lo == c


# ---------------------------------------------------------------- rulesets made by the real trainer

def training_list(rng):
    """a small training list whose grammar has an enumerable language"""
    pws = []
    voc = rng.sample(seg_gen.WORDS[:24], rng.randrange(2, 5))
    for _ in range(rng.randrange(5, 14)):
        k = rng.random()
        if k < 0.45:
            w = rng.choice(voc)
            if rng.random() < 0.4:
                w = C05.seg_gen._case(rng, w)
            s = w + rng.choice(["", "", rng.choice(seg_gen.DIGITS[:11]), rng.choice(seg_gen.SYMBOLS[:20]),
                                rng.choice(seg_gen.YEARS[:5]), rng.choice(seg_gen.CONTEXT[:10])])
        elif k < 0.6:
            s = rng.choice(voc) + rng.choice(voc)
        elif k < 0.7:
            s = rng.choice(seg_gen.WALKS[:12]) + rng.choice(["", rng.choice(seg_gen.DIGITS[:6])])
        elif k < 0.8:
            s = rng.choice(voc) + rng.choice(seg_gen.ODD) + rng.choice(["", "1"])
        elif k < 0.86:
            s = rng.choice(["bob@gmail.com", "x@y.org", "www.google.com", "mail.ru", "a.com1"])
        else:
            s = seg_gen.gen_string(rng)[0][:12]
        s = "".join(c for c in s if c not in seg_gen.EXCLUDED and ord(c) >= 0x20 and c != "\t")
        if s:
            pws.append(s)
            if rng.random() < 0.5:
                pws.append(s)
    # make some words frequent enough to be multi-word bases for the scorer's detector
    for w in voc[:2]:
        if len(w) >= 4:
            pws += [w] * rng.randrange(0, 3)
    rng.shuffle(pws)
    return pws


def near_equal_list(rng):
    """Counts of about a thousand that differ by 1-3 (probabilities of neighbouring lines of one rules file agree to 3-4 digits
    without being equal): the scorer must give each string the probability of ITS OWN line, which is also what the guesser's
    pre-terminal carries - a reader that merges 'almost equal' lines on one side only breaks the promise."""
    words = rng.sample(["table", "chair", "house", "plant", "river"], 3)        # one rules file: Alpha/5.txt
    tails = rng.sample(["7", "3", "9", "0"], 3)                                  # one rules file: Digits/1.txt
    base = rng.choice([1000, 1500, 2400])
    pws = []
    for i, w in enumerate(words):                 # alpha counts base+5, base+4 (or +3), ...: neighbours 0.04-0.2 % apart
        pws += [w + "12"] * (base + 5 - i * rng.choice([1, 2]))
    for i, t in enumerate(tails):                 # digit counts likewise, behind a four-letter word of its own
        pws += ["lamp" + t] * (base // 2 + 3 - i)
    pws += ["Lamp!"] * (base // 3) + ["LAMP!"] * (base // 3 - 1)     # two masks of Capitalization/4.txt likewise
    pws += ["zebra1", "Zebra12", "x9"]
    rng.shuffle(pws)
    return pws


def train_all(code, lists):
    """run trainer.py for every list (8 at a time); returns rule directories (None = trainer failed)"""
    env = common.subenv()
    env["PYTHONPATH"] = code
    procs = []
    out = [None] * len(lists)
    for i, pws in enumerate(lists):
        tf = os.path.join(code, "train_%d.txt" % i)
        with open(tf, "w", encoding="utf-8") as f:
            f.write("\n".join(pws) + "\n")
        procs.append((i, subprocess.Popen([common.PY, "trainer.py", "-t", tf, "-r", "V%d" % i, "-e", "utf-8"], cwd=code, env=env,
                                          stdin=subprocess.DEVNULL, stdout=subprocess.DEVNULL, stderr=subprocess.DEVNULL)))
        if len(procs) >= 8:
            for j, p in procs:
                p.wait(timeout=120)
            procs = []
    for j, p in procs:
        p.wait(timeout=120)
    for i in range(len(lists)):
        d = os.path.join(code, "Rules", "V%d" % i)
        if os.path.exists(os.path.join(d, "Grammar", "grammar.txt")):
            out[i] = d
    return out


class OmenStub:
    max_omen_level = 0

    def parse(self, password):
        return -1


def load_scorer(d):
    common.repo_on_path()
    from lib_scorer.pcfg_password_scorer import PCFGPasswordScorer
    from lib_scorer.grammar_io import load_grammar
    sc = PCFGPasswordScorer()
    ok, _, _ = common.quiet_call(load_grammar, sc, d)
    if not ok:
        return None
    sc.create_multiword_detector()
    sc.omen = OmenStub()
    return sc


def load_guesser(name, d):
    from lib_guesser.pcfg_grammar import PcfgGrammar
    g, _, _ = common.quiet_call(PcfgGrammar, name, d, "4.7", None, False, False, False, "Grammar")
    return g


def language(g, cap):
    """every guess of every pre-terminal without a Markov variable, with the pre-terminal's probability"""
    out = []
    collected = []
    g.print_guess = collected.append
    n_pt = 0
    for it in impl_next.product_enumeration(g):
        if any(r == "M" for r, _ in it["pt"]):
            continue
        n_pt += 1
        del collected[:]
        common.quiet_call(g.create_guesses, it["pt"])
        for s in collected:
            out.append((s, it["prob"]))
        if len(out) > cap:
            return None, n_pt
    return out, n_pt


# ---------------------------------------------------------------- Coq literals

def centries(d):
    if not d:
        return "(@nil (str * float))"
    return "[" + "; ".join("(%s, %s)" % (common.cstr(k), common.cfloat(v)) for k, v in d.items()) + "]"


def clen_table(t):
    if not t:
        return "(@nil (Z * entries float))"
    return "[" + "; ".join("(%d%%Z, %s)" % (L, centries(c)) for L, c in t.items()) + "]"


def clabels(labs):
    return "[" + "; ".join(C05.clabel(l).strip("()") for l in labs) + "]"


def cruleset(sc):
    bases = []
    for k, v in sc.count_base_structures.items():
        labs = C05.BASE_RE.findall(k)
        if "".join(labs) != k:
            continue            # 'M' and anything the parser can never produce
        bases.append("(%s, %s)" % (clabels(labs) if labs else "(@nil label)", common.cfloat(v)))
    return ("{| r_bases := %s; r_alpha := %s; r_masks := %s; r_digits := %s; r_other := %s; r_keyboard := %s; "
            "r_years := %s; r_context := %s |}" % (
                ("[" + "; ".join(bases) + "]") if bases else "(@nil (list label * float))",
                clen_table(sc.count_alpha), clen_table(sc.count_alpha_masks), clen_table(sc.count_digits),
                clen_table(sc.count_other), clen_table(sc.count_keyboard), centries(sc.count_years),
                centries(sc.count_context_sensitive)))


# ---- the guesser's view of the tables (exact rationals) against what the real guesser loaded

def cq(x):
    from fractions import Fraction
    f = Fraction(x)
    if f < 0:
        raise ValueError("negative probability")
    return "(%d # %d)" % (f.numerator, f.denominator)


def cq_entries(d):
    if not d:
        return "(@nil (str * Q))"
    return "[" + "; ".join("(%s, %s)" % (common.cstr(k), cq(v)) for k, v in d.items()) + "]"


def cq_len_table(t):
    if not t:
        return "(@nil (Z * entries Q))"
    return "[" + "; ".join("(%d%%Z, %s)" % (L, cq_entries(c)) for L, c in t.items()) + "]"


def cq_ruleset(sc):
    bases = []
    for k, v in sc.count_base_structures.items():
        labs = C05.BASE_RE.findall(k)
        if "".join(labs) != k:
            continue
        bases.append("(%s, %s)" % (clabels(labs) if labs else "(@nil label)", cq(v)))
    return ("{| r_bases := %s; r_alpha := %s; r_masks := %s; r_digits := %s; r_other := %s; r_keyboard := %s; "
            "r_years := %s; r_context := %s |}" % (
                ("[" + "; ".join(bases) + "]") if bases else "(@nil (list label * Q))",
                cq_len_table(sc.count_alpha), cq_len_table(sc.count_alpha_masks), cq_len_table(sc.count_digits),
                cq_len_table(sc.count_other), cq_len_table(sc.count_keyboard), cq_entries(sc.count_years),
                cq_entries(sc.count_context_sensitive))), len(bases)


VKEY = {"K": "VK", "A": "VA", "C": "VC", "D": "VD", "O": "VO"}


def cvkey(name):
    if name == "Y1":
        return "VY"
    if name == "X1":
        return "VX"
    m = re.match(r"^([KACDO])(\d+)$", name)
    if not m:
        return None
    return "(%s %s)" % (VKEY[m.group(1)], m.group(2))


def gview_source(sc, g):
    """the real PcfgGrammar's variables and base structures (Markov / e-mail / website variables left out)"""
    rsq, nb = cq_ruleset(sc)
    vars_ = []
    for name, groups in g.grammar.items():
        k = cvkey(name)
        if k is None:
            continue
        vars_.append("(%s, [%s])" % (k, "; ".join("(%s, %s)" % (cq(gr["prob"]), C05.cstrs(gr["values"])) for gr in groups)))
    bases = []
    for b in g.base:
        if any(cvkey(r) is None for r in b["replacements"]):
            continue
        bases.append("([%s], %s)" % ("; ".join(cvkey(r) for r in b["replacements"]), cq(b["prob"])))
    src = ["From Coq Require Import List ZArith NArith Bool QArith.",
           "From Pcfg Require Import Str Detect Segment Scorer ScorerGuesser.",
           "Import ListNotations.", "Open Scope Z_scope.",
           "Definition rsq : Scorer.ruleset Q := %s." % rsq,
           "Definition vars : list (vkey * list (Q * list Str.str)) := %s." %
           (("[" + ";\n ".join(vars_) + "]") if vars_ else "[]"),
           "Definition bases : list (list vkey * Q) := %s." % (("[" + ";\n ".join(bases) + "]") if bases else "[]"),
           "Eval vm_compute in (gview_check rsq vars bases)."]
    return "\n".join(src)


def shard_source(case):
    rs, scored, mwq, lang = case
    src = ["From Coq Require Import List ZArith NArith Bool Floats.",
           "From Pcfg Require Import Str Multiword Detect Segment SegCorr Scorer ScorerCorr.",
           "Import ListNotations.", "Open Scope Z_scope.", "Open Scope float_scope.",
           "Definition the_case : c13case := {| cc_rs := %s;" % rs,
           " cc_scored := [%s];" % ";\n  ".join(
               "(%s, %s)" % (common.cstr(s), "None" if r is None else "Some (%d%%nat, %s)" % (r[0], common.cfloat(r[1])))
               for s, r in scored) if scored else " cc_scored := [];",
           " cc_mwq := %s;" % (("[" + "; ".join("(%s, (%d%%Z, (%s, %s)))" % (common.cstr(w), c, common.cbool(b), C05.cstrs(ws))
                                                 for w, c, b, ws in mwq) + "]") if mwq else "[]"),
           " cc_language := %s |}." % ("None" if lang is None else "Some [" + "; ".join(
               "(%s, %s)" % (common.cstr(s), common.cfloat(p)) for s, p in lang) + "]"),
           "Eval vm_compute in (check_c13 the_case)."]
    return "\n".join(src)


# ---------------------------------------------------------------- the check

def candidates(rng, pws, lang):
    out = list(dict.fromkeys(pws))
    gs = [s for s, _ in lang]
    out += rng.sample(gs, min(len(gs), 60))
    base = out[:]
    for s in rng.sample(base, min(len(base), 40)):
        k = rng.randrange(5)
        if k == 0:
            t = s.swapcase()
        elif k == 1:
            t = "".join(str((int(c) + 1) % 10) if c in "0123456789" else c for c in s)
        elif k == 2:
            t = s + rng.choice(seg_gen.SYMBOLS[:20])
        elif k == 3 and s:
            i = rng.randrange(len(s))
            t = s[:i] + s[i].upper() + s[i + 1:]
        else:
            t = s.capitalize()
        if seg_gen.check_charwise_lower(t) and "\u03a3" not in t:
            out.append(t)
    # letters whose case mapping is not one-to-one, in place of their plain relatives
    odd = {"s": "\u017f", "k": "\u212a", "\u00df": "\u1e9e", "\u01c6": "\u01c5", "\u03b8": "\u03f4", "\u00e5": "\u212b",
           "i": "\u0130", "\u03c9": "\u2126", "ss": "\u1e9e"}
    for s in rng.sample(base, min(len(base), 40)):
        for a, b in odd.items():
            if a in s.lower():
                i = s.lower().index(a)
                out.append(s[:i] + b + s[i + len(a):])
    out += [seg_gen.gen_string(rng)[0] for _ in range(40)]
    out = [s for s in dict.fromkeys(out) if s and set(s) <= set(seg_gen.pool()) and seg_gen.check_charwise_lower(s)]
    return out


def case_class(s):
    bad = sorted({"U+%04X" % ord(c) for c in s if not case_ok_char(c)})
    return bad


def after_edit(code, name, d, cands, lang, cap, pws, dist):
    """The ruleset is scored (above), then filtered in place with the real edit_rules.py, then scored again by a NEW scorer
    object: the promise is about the ruleset as it is on disk now - whatever an earlier scoring run may have left behind."""
    vio = []
    lens = sorted(len(s) for s, _ in lang)
    if not lens:
        return vio
    mx = lens[len(lens) // 2]
    env = common.subenv()
    env["PYTHONPATH"] = code
    p = subprocess.run([common.PY, "edit_rules.py", "-r", name, "--max_length", str(max(1, mx))], cwd=code, env=env,
                       stdin=subprocess.DEVNULL, stdout=subprocess.PIPE, stderr=subprocess.PIPE, timeout=120)
    if p.returncode != 0:
        return vio
    sc2 = load_scorer(d)
    try:
        g2 = load_guesser(name, d)
    except Exception:      # noqa: BLE001
        return vio
    if sc2 is None:
        return [{"sig": "C13:scorer-cannot-load", "what": "the scorer cannot load the ruleset after edit_rules.py", "replay": {"training": pws, "edit_max_length": mx}}]
    lang2, _ = language(g2, cap)
    if lang2 is None:
        return vio
    dist["rulesets_rescored_after_edit"] += 1
    dist["guesses_removed_by_edit"] += len(lang) - len(lang2)
    by2 = {}
    for s, q in lang2:
        by2.setdefault(s, []).append(q)
    for s in cands:
        try:
            _, cat, prob, _ = sc2.parse(s)
        except Exception:  # noqa: BLE001
            continue
        prob = float(prob)
        if prob != 0:
            qs = by2.get(s)
            if not qs or min(abs(q - prob) / prob for q in qs) > TOL:
                if case_class(s):
                    continue        # R16 (letters whose case mapping is not one-to-one) is judged in the main loop
                vio.append({"sig": "C13:nonzero-not-generated:after-edit",
                            "what": "after edit_rules.py --max_length %d the score of %r is %r, but the guesser on the edited ruleset %s"
                                    % (mx, s, prob, "never emits it" if not qs else "emits it with %r" % qs[:3]),
                            "replay": {"training": pws, "string": s, "edit_max_length": mx}})
                break
    return vio


def run(ctx):
    rng = ctx.rng
    n_rs = ctx.scale(24, 300)
    cap = ctx.scale(5000, 20000)
    code = common.copy_code_tree(common.scratch())
    lists = [training_list(rng) for _ in range(n_rs)]
    for k in range(1, n_rs, max(2, n_rs // ctx.scale(2, 12))):
        lists[k] = near_equal_list(rng)
    dirs = train_all(code, lists)
    vio, corr, samples = [], [], []
    # the translated source of parse() still equals the model (or: which lemma / which construct broke)
    corr.append(scorer_tie.obligation())
    dist = Counter()
    shards, meta = [], {}
    evaluations = 0
    nontrivial = set()
    max_dev = 0.0
    P = set(seg_gen.pool())
    for i, (pws, d) in enumerate(zip(lists, dirs)):
        if d is None:
            dist["trainer_failed"] += 1
            continue
        if not all(set(p) <= P for p in pws):
            continue
        sc = load_scorer(d)
        if sc is None:
            dist["scorer_load_failed"] += 1
            vio.append({"sig": "C13:scorer-cannot-load", "what": "the scorer cannot load a ruleset written by the trainer",
                        "replay": {"training": pws}})
            continue
        try:
            g = load_guesser("V%d" % i, d)
        except Exception as e:      # noqa: BLE001
            dist["guesser_load_failed"] += 1
            continue
        lang, n_pt = language(g, cap)
        if lang is None:
            dist["language_too_large"] += 1
            continue
        dist["rulesets"] += 1
        dist["preterminals"] += n_pt
        dist["language_size"] += len(lang)
        by_s = {}
        for s, p in lang:
            by_s.setdefault(s, []).append(p)
        mw_before = copy.deepcopy(sc.multiword_detector.lookup)
        tables_before = copy.deepcopy((sc.count_alpha, sc.count_alpha_masks, sc.count_digits, sc.count_other, sc.count_keyboard,
                                       dict(sc.count_years), dict(sc.count_context_sensitive), dict(sc.count_base_structures)))
        cands = candidates(rng, pws, lang)
        scored = []
        first = {}
        for rnd in range(2):                      # every string twice, around all the other calls
            for s in cands:
                try:
                    _, cat, prob, _ = sc.parse(s)
                    r = ({"e": 1, "w": 2}.get(cat, 0), float(prob))
                except Exception as e:            # noqa: BLE001
                    r = None
                if rnd == 0:
                    first[s] = r
                    scored.append((s, r))
                    evaluations += 1
                elif first[s] != r:
                    vio.append({"sig": "C13:not-pure", "what": "the same string scored %r then %r" % (first[s], r),
                                "replay": {"training": pws, "string": s}})
        # the score depends only on the string and the ruleset: not on the classification cut-off
        # (PCFGPasswordScorer(limit) / password_scorer.py --limit) nor on the OMEN cut-off
        nz = sorted(r[1] for _, r in scored if r and r[1] > 0)
        limits = [min(nz) / 2, nz[len(nz) // 2], nz[-1], 2.0] if nz else [1e-9, 0.5, 2.0]
        cutoff_diffs = []
        for k, lim in enumerate(limits):
            sc.limit = lim
            if k % 2:
                sc.omen = OmenStub()
                sc.omen.max_omen_level = 5
                sc.omen.parse = lambda password: 3
            for s in cands:
                try:
                    _, cat, prob, _ = sc.parse(s)
                    r = ({"e": 1, "w": 2}.get(cat, 0), float(prob))
                except Exception as e:            # noqa: BLE001
                    r = None
                evaluations += 1
                if r != first[s] and not (r and first[s] and r[1] == first[s][1] and r[0] == first[s][0]):
                    dist["cutoff_dependent"] += 1
                    if len(cutoff_diffs) < 20:
                        cutoff_diffs.append((s, r))
                    vio.append({"sig": "C13:depends-on-cutoff",
                                "what": "%r scores %r with the default cut-off and %r with limit=%r: the score must depend on the "
                                        "string and the ruleset only" % (s, first[s], r, lim),
                                "replay": {"training": pws, "string": s, "limit": lim}})
                    if r and r[1] != 0:
                        qs = by_s.get(s)
                        if not qs or min(abs(q - r[1]) / r[1] for q in qs) > TOL:
                            vio.append({"sig": "C13:nonzero-not-generated:cutoff",
                                        "what": "with limit=%r the score of %r is %r, which is not the probability of any pre-terminal "
                                                "that emits it (%r)" % (lim, s, r[1], (qs or [])[:3]),
                                        "replay": {"training": pws, "string": s, "limit": lim}})
            sc.limit = 0
            sc.omen = OmenStub()
        scored_extra = cutoff_diffs
        if mw_before != sc.multiword_detector.lookup or tables_before != (
                sc.count_alpha, sc.count_alpha_masks, sc.count_digits, sc.count_other, sc.count_keyboard,
                dict(sc.count_years), dict(sc.count_context_sensitive), dict(sc.count_base_structures)):
            vio.append({"sig": "C13:not-pure:state", "what": "parse() changed the scorer's detector or tables",
                        "replay": {"training": pws}})
        # direct oracle
        for s, r in scored:
            if r is None:
                vio.append({"sig": "C13:raises", "what": "scorer.parse raised on %r" % s, "replay": {"training": pws, "string": s}})
                continue
            cat, p = r
            if cat in (1, 2) and p != 0:
                vio.append({"sig": "C13:email-website-nonzero", "what": "category %d with probability %r for %r" % (cat, p, s),
                            "replay": {"training": pws, "string": s}})
            if p != 0:
                dist["nonzero_scores"] += 1
                shape = (i, len(by_s.get(s, [])))
                nontrivial.add(s)
                qs = by_s.get(s)
                cls = case_class(s)
                tag = ":case-mapping" if cls else ""
                if not qs:
                    vio.append({"sig": "C13:nonzero-not-generated" + tag,
                                "what": "score %r for %r, which the guesser never emits under this ruleset%s" %
                                (p, s, " (case mapping not one-to-one: %s)" % ", ".join(cls) if cls else ""),
                                "replay": {"training": pws, "string": s}})
                else:
                    dev = min(abs(q - p) / p for q in qs)
                    max_dev = max(max_dev, dev)
                    if dev > TOL:
                        vio.append({"sig": "C13:probability-differs" + tag,
                                    "what": "score %r for %r but its pre-terminals have %r" % (p, s, qs[:3]),
                                    "replay": {"training": pws, "string": s}})
            else:
                dist["zero_scores"] += 1
        # Coq case
        mwq = []
        voc = sorted({w for L, c in sc.count_alpha.items() for w in c})
        for _ in range(10):
            if not voc:
                break
            w = "".join(rng.choice(voc) for _ in range(rng.choice([1, 2, 2, 3])))[:30]
            b, ws = sc.multiword_detector.parse(w)
            mwq.append((w, sc.multiword_detector._get_count(w), b, list(ws)))
        small = sorted(((s, p) for s, p in lang), key=lambda sp: ([ord(c) for c in sp[0]], sp[1])) if len(lang) <= 300 else None
        if small is not None:
            dist["language_compared_in_coq"] += 1
        name = "r%03d" % i
        # the model has no cut-off: what the code returned under another one is compared with the same model value
        shards.append((name, shard_source((cruleset(sc), scored + scored_extra, mwq, small))))
        shards.append(("v%03d" % i, gview_source(sc, g)))
        meta["v%03d" % i] = {"training": pws}
        meta[name] = {"training": pws, "strings": [s for s, _ in scored + scored_extra]}
        if len(samples) < 3:
            nz = [(s, r[1]) for s, r in scored if r and r[1] != 0][:3]
            samples.append({"training": pws[:8], "nonzero": nz, "language": len(lang)})
        if i % 3 == 0:
            vio += after_edit(code, "V%d" % i, d, cands, lang, cap, pws, dist)
    for name, idx, log in common.run_case_shards("C13", shards):
        if name.startswith("v"):
            ok = idx == []
            corr.append(("guesser-view:" + name, ok, "" if ok else
                         "guesser_view of the scorer's tables differs from what PcfgGrammar loaded (variables %s / 1000+base): %s; "
                         "training list %s" % (idx, log[-300:] if idx is None else "", json.dumps(meta[name]["training"])[:400])))
            continue
        if idx is None:
            corr.append(("score:" + name, False, log[-800:]))
        elif idx:
            what = []
            for k in idx[:5]:
                what.append("multi-word detector" if k == 1000 else "guesser language" if k == 2000 else
                            repr(meta[name]["strings"][k]))
            corr.append(("score:" + name, False, "model and implementation differ for %s; training list %s"
                         % (", ".join(what), json.dumps(meta[name]["training"])[:500])))
        else:
            corr.append(("score:" + name, True, ""))
    ctx.note("largest relative deviation between a non-zero score and the matching pre-terminal probability: %.3g" % max_dev)
    dist["max_relative_deviation"] = max_dev
    rule = ("rulesets written by the real trainer from generated training lists (vocabulary words, digits, symbols, years, "
            "context strings, keyboard walks, characters with unusual case mappings, e-mails / URLs); every candidate "
            "(training passwords, guesses of the real guesser, case / digit / symbol perturbations, look-alike letters with a "
            "non one-to-one case mapping, unrelated strings) is scored twice by the real PCFGPasswordScorer and checked against "
            "the language enumerated with the real PcfgGrammar; every third ruleset is then filtered in place with the real edit_rules.py and "
            "scored again by a new scorer object against the language of the edited ruleset; non-trivial = non-zero score; distinct by string")
    return {"evaluations": evaluations, "distinct_nontrivial": len(nontrivial), "rule": rule, "samples": samples,
            "dist": dict(dist), "corr": corr, "violations": dedup(vio)}


def dedup(vio):
    best = {}
    for v in vio:
        k = v["sig"]
        n = len(v["replay"].get("string", "")) * 100 + sum(len(p) for p in v["replay"].get("training", []))
        if k not in best or n < best[k][0]:
            best[k] = (n, v)
    return [b[1] for _, b in sorted(best.items())]


def replay(ctx, data):
    inp = data.get("input") or {}
    if "training" not in inp:
        return []
    code = common.copy_code_tree(common.scratch())
    d = train_all(code, [inp["training"]])[0]
    if d is None:
        return []
    sc = load_scorer(d)
    g = load_guesser("V0", d)
    lang, _ = language(g, 10 ** 6)
    by_s = {}
    for s, p in lang:
        by_s.setdefault(s, []).append(p)
    out = []
    if "edit_max_length" in inp:
        sc.parse(inp.get("string", "x"))
        from collections import Counter as _C
        return after_edit(code, "V0", d, [inp["string"]] if "string" in inp else list(dict.fromkeys(inp["training"])), lang, 10 ** 6,
                          inp["training"], _C())
    strings = [inp["string"]] if "string" in inp else list(dict.fromkeys(inp["training"]))
    for s in strings:
        _, cat, p, _ = sc.parse(s)
        if "limit" in inp:
            sc.limit = inp["limit"]
            _, cat2, p2, _ = sc.parse(s)
            sc.limit = 0
            if p2 != p:
                out.append({"sig": "C13:depends-on-cutoff", "what": "%r scores %r by default and %r with limit=%r" % (s, p, p2, inp["limit"]),
                            "replay": inp})
        if p != 0:
            qs = by_s.get(s)
            cls = case_class(s)
            tag = ":case-mapping" if cls else ""
            if not qs:
                out.append({"sig": "C13:nonzero-not-generated" + tag, "what": "score %r for %r, never emitted by the guesser" % (p, s),
                            "replay": inp})
            elif min(abs(q - p) / p for q in qs) > TOL:
                out.append({"sig": "C13:probability-differs" + tag, "what": "score %r for %r, pre-terminals %r" % (p, s, qs[:3]),
                            "replay": inp})
    return out
