"""C15: an interrupted Markov level resumes at the very next guess.

Drives the REAL session code in-process: PcfgGrammar on a generated ruleset
whose base structures include 'M', CrackingSession.run with print_guess
collected, the quit (pcfg.should_exit = True) delivered from a wrapper around
print_guess after a chosen guess, the key-press thread replaced by an inert
stand-in whose is_alive() turns False once should_exit is set (module
attribute of lib_guesser.cracking_session, no repository change); then a NEW
PcfgGrammar + CrackingSession.run(load_session=True) on the save files.
Coq evaluates the model's state after the j-th guess against the pickled .omn
and its continuation (empty cache) against what the resumed run emitted.
A third family of shards ("session:", one per ruleset) runs the COMBINED session
model MarkovSession.v (queue run + Markov level + save + restore) on the same
histories: the loaded tables, the OMEN model, the cut (k pops before the level,
quit after its j-th guess); the model's interrupted output, saved
max_probability / omen_guess_number / .omn and the resumed session's whole output
sequence and pop sequence are compared with what the real sessions did.  The
model's queue follows the implementation's order inside groups of equal
probability (pop_follow, proved to meet the heap contract for every order); items
are matched by (base-structure line, pt, base_prob, prob) - the line is followed
in the implementation by object identity (see run_session), because two
identical grammar.txt lines give items that are otherwise indistinguishable.
A last stage ("named sessions", below) runs the real pcfg_guesser.main() of a scratch
copy of the code tree (harness/main_driver.py): two or three sessions of one ruleset
under session names of one confusable family, each quit at places of its own inside
Markov levels and resumed with --load while the other sessions are interrupted in
between; each session by itself must emit the uninterrupted run piece by piece.
Both stages run over session VARIANTS (see ALPHABETS below): rulesets written in utf-8 / iso-8859-1 / cp1251 / utf-16 whose
OMEN alphabet has lower-case, upper-case and caseless letters inside and outside ASCII, sessions started with and without
--all_lower (resumed runs take the option from the save file, as --load does); the reference is the uninterrupted run under
the same options, the oracle is unchanged.  A resumed run that raises (e.g. cannot read the position file the interrupted
run wrote) is C15:resume-raises with the exception text."""
import json
import os
import pickle
import shutil
import threading
from collections import Counter

import common
import omen_gen
import rulesets

ID = "C15"
TRUSTED = ["pickle.dump/load is the identity on int, bool, list of [str,int,int] (the .omn content is compared with the model state)",
           "translator tie: harness/translate_omen_gen.py + coq/theories/OmenGenRt.v (as for C10); save_session / load_session are "
           "not translated: the order of the pickled fields and the constructor call of load_session are extracted (omen_save_order, "
           "omen_load_order, harness/consts/zz_omen_gen.py)",
           "configparser write/read round trip of the .sav file",
           "the key-press thread is replaced by an inert stand-in that never reads stdin; the quit is pcfg.should_exit set from the "
           "print_guess wrapper (for a loop that polls thread liveness the stand-in's is_alive() is `not should_exit`); thread "
           "timing and stdin are C12's subject",
           "named-sessions stage: harness/main_driver.py runs pcfg_guesser.main() of a scratch copy of the code tree with print_guess, the "
           "queue class and the threading module of cracking_session replaced from outside (as above); which names denote the SAME session "
           "(e.g. 'run' and 'run.sav') is not judged: such pairs are never put into one history",
           "session shards: the model's queue is pop_follow over the pop order the implementation showed (only the order inside groups "
           "of equal probability is taken from the implementation; C15_follow_pop_ok: it meets the heap contract for every order)",
           "translator tie of the session loop: harness/translate_session.py (ast -> Gallina, fail closed; accepted subset and what it does not model in its docstring) and the meaning coq/theories/SessionRt.v gives to `while`, break, try/except OSError, `if limit:` and `x is None`; every collaborator of CrackingSession.run / _save_session (queue, grammar object with quit flag and OMEN counters, save configuration and file, keyboard thread) is an operation on an abstract world: the translated text equals SessionModel.m_run for every world (C12_source_run_is_model), and the property theorems instantiate the world with the collaborators of Session.v (SessionModel.sworld) or constrain it by a contract (quiet_world)"]
ASSUMES = ["wf_tables G, first_below_max G", "a further pre-terminal is popped after the interrupted level (else nothing is saved: R18, "
           "C15_last_level_not_saved)",
           "C15_then_rest / C15_tied_level_repeats: well-formed ruleset (NextSpec.wf), any two queues meeting the heap contract "
           "(pop_ok_okb), sound Optimizer memo tables in both processes; the tied case (the pop that follows has exactly the level's "
           "probability) is covered by the theorems, not excluded"]

MARKOV_SYMBOLS = ["ω", "ψ", "λ", "ж", "ф", "ξ"]    # disjoint from every terminal of rulesets.py

# ---------------------------------------------------------------- session variants: options, encoding, OMEN alphabet
#
# A session is (ruleset, options typed when it was started).  The saved position of a Markov level is a piece of text
# (n-grams over the OMEN alphabet) written in one process and read in another, and the options of the session are
# restored from the save file: both belong to the history.  So rulesets are drawn in several encodings (every file the
# trainer writes in the ruleset's encoding is written in it, terminals limited to what the encoding has), the OMEN
# alphabet holds lower-case / upper-case / caseless letters inside and outside ASCII that the encoding can represent,
# and sessions are run with and without --all_lower (skip_case: given when the session is started, taken from the
# save file by --load).  The reference is always the UNINTERRUPTED run under the same options.  (--skip_brute removes
# the Markov base structure, so there is nothing to interrupt under it.)
# Per encoding: lower[i].upper() == upper[i]; "other" = letters without case, symbols, letters whose other case is
# not one code point of the encoding.  All disjoint from every terminal of rulesets.py (j, y are the free ASCII letters).
ALPHABETS = {
    "utf-8": {"lower": ["ω", "ψ", "λ", "ж", "ф", "ξ", "j", "y"], "upper": ["Ω", "Ψ", "Λ", "Ж", "Ф", "Ξ", "J", "Y"],
              "other": ["ק", "あ", "ª", "§", "ß", "ǅ", "ŉ"]},
    "iso-8859-1": {"lower": ["ö", "ü", "å", "ø", "þ", "æ", "j", "y"], "upper": ["Ö", "Ü", "Å", "Ø", "Þ", "Æ", "J", "Y"],
                   "other": ["ª", "º", "§", "¿", "ß", "ÿ", "µ"]},
    "cp1251": {"lower": ["ж", "ф", "ю", "ы", "ґ", "њ", "j", "y"], "upper": ["Ж", "Ф", "Ю", "Ы", "Ґ", "Њ", "J", "Y"],
               "other": ["§", "№", "µ", "¤", "‰"]},
    "utf-16": {"lower": ["ω", "ψ", "ж", "ф", "\U00010428", "j", "y"], "upper": ["Ω", "Ψ", "Ж", "Ф", "\U00010400", "J", "Y"],
               "other": ["ק", "あ", "§", "ß", "ǅ", "\U0001d11e"]},
}
ENC_CYCLE = ["utf-8", "iso-8859-1", "utf-8", "cp1251", "utf-8", "utf-16"]
KIND_CYCLE = ["plain", "mixed", "other", "mixed", "mixed"]
LOWER_CYCLE = [False, True, False, True, True, False, True]
FILL = {"A": "kmprugv", "D": "3456", "O": "%&+=", "K": "kmprugv", "Y": "3456", "X": "%&+="}


def variant_of(idx, shift=0):
    """The variant of the idx-th ruleset of a stage: every ruleset index has a fixed (encoding, alphabet kind, --all_lower),
    so that no seed can draw a run without them (cycles of length 6, 5, 7: 210 combinations; index 0 is the plain one)."""
    i = idx + shift
    return {"encoding": ENC_CYCLE[i % len(ENC_CYCLE)], "kind": KIND_CYCLE[i % len(KIND_CYCLE)], "all_lower": LOWER_CYCLE[i % len(LOWER_CYCLE)]}


def is_utf8_like(enc):
    return enc.lower().replace("_", "-") in ("utf-8", "utf8", "ascii", "us-ascii")


def draw_alphabet(rng, enc, kind, n):
    """n distinct symbols of the encoding's pools.  plain: lower-case only (what every C15 ruleset had); mixed: letters of both
    cases, mostly one letter IN both cases; other: at least one caseless / special letter.  Outside UTF-8 at least one symbol is
    not ASCII and, mostly, one is (quit positions on guesses with and without a character the encoding writes as a high byte)."""
    P = ALPHABETS[enc]
    lo, up, ot = P["lower"], P["upper"], P["other"]
    if kind == "plain":
        alpha = rng.sample(lo, n)
    elif kind == "mixed":
        i = rng.randrange(len(lo))
        alpha = [lo[i], up[i] if rng.random() < 0.6 else rng.choice(up)]
        rest = [c for c in lo + up + (ot if rng.random() < 0.3 else []) if c not in alpha]
        alpha += rng.sample(rest, max(0, n - 2))
    else:
        alpha = [rng.choice(ot)]
        rest = [c for c in lo + up + ot if c not in alpha]
        alpha += rng.sample(rest, n - 1)
    alpha = list(dict.fromkeys(alpha))
    if not is_utf8_like(enc):
        cased = lo if kind == "plain" else lo + up
        if all(c.isascii() for c in alpha):
            alpha[-1] = rng.choice([c for c in cased if not c.isascii() and c not in alpha])
        # 0, 1 or 2 ASCII symbols beside at least one that is not (a guess is pure ASCII only if all its characters are)
        want = rng.choice([0, 1, 2, 2])
        pool = [c for c in cased if c.isascii() and c not in alpha]
        rng.shuffle(pool)
        while pool and sum(1 for c in alpha if c.isascii()) < want:
            high = [k for k, c in enumerate(alpha) if not c.isascii()]
            if len(alpha) < 4:
                alpha.append(pool.pop())
            elif len(high) > 1:
                alpha[high[-1]] = pool.pop()
            else:
                break
    rng.shuffle(alpha)
    return alpha


def fit_terminals(rs, enc, rng):
    """Terminal values the encoding cannot represent are replaced by fresh ASCII values of the same length (a capitalisation
    mask indexes into its word) that the list does not hold yet."""
    for k, lines in rs["files"].items():
        have = set(v for v, _ in lines)
        new = []
        for v, p in lines:
            try:
                v.encode(enc)
            except UnicodeEncodeError:
                pool = FILL.get(k[0], "kmprugv")
                for _ in range(200):
                    w = "".join(rng.choice(pool) for _ in range(len(v)))
                    if w not in have:
                        break
                else:
                    raise RuntimeError("no substitute for %r in %s" % (v, k))
                have.add(w)
                v = w
            new.append((v, p))
        rs["files"][k] = new
    return rs


def write_rules(rs, rd):
    """rulesets.write_ruleset, and omen_keyspace.txt in the ruleset's encoding as the trainer writes it (load_omen_keyspace reads
    it in that encoding; the shared writer writes it as plain text, the same bytes for UTF-8 / Latin-1 / cp1251 but not UTF-16)."""
    import codecs
    rulesets.write_ruleset(rs, rd)
    with codecs.open(os.path.join(rd, "Omen", "omen_keyspace.txt"), "w", encoding=rs.get("encoding", "utf-8")) as f:
        for lvl, ks in (rs.get("omen_keyspace") or {str(l): 1 for l, _ in rs.get("omen_prob", [])}).items():
            f.write("%s\t%d\n" % (lvl, ks))


class _FakeThread:
    def __init__(self, target=None, args=(), kwargs=None, **kw):
        self._pcfg = args[1]
        self.daemon = False

    def start(self):
        pass

    def is_alive(self):
        return not self._pcfg.should_exit


class _FakeThreading:
    Thread = _FakeThread
    main_thread = staticmethod(threading.main_thread)


CAT = {"M": 0, "C": 1}          # ExpandCorr.cat_of


def run_session(rs, rd, sav, load, quit_after=None, cap=4000, quit_in_next=None, tables=False, lower=False):
    """One run of the real session.  Returns a dict: stream, pops (pt, prob), segments
    (start index in the stream per created pre-terminal), restored (number of guesses
    emitted by restore_omen, or None), next_calls (per MarkovCracker.next_guess call:
    stream length before it, whether it returned None).
    quit_after=n: should_exit is set right after the n-th guess was written;
    quit_in_next=m: should_exit is set at the entry of the m-th next_guess call of this
    session, i.e. while the generator is searching (class attribute wrapped from the
    harness) -- for the call that returns None this is "after the last guess, before the
    loop notices exhaustion"."""
    from lib_guesser.pcfg_grammar import PcfgGrammar
    import lib_guesser.cracking_session as cs
    from lib_guesser.priority_queue import PcfgQueue
    import warnings
    with warnings.catch_warnings():
        warnings.simplefilter("ignore")
        import pcfg_guesser
    # as pcfg_guesser.main(): the options typed for a NEW session (lower = --all_lower); --load takes them from the save file,
    # which is read BEFORE the grammar is built because they decide which grammar is loaded
    info = {"rule_name": rs["name"], "skip_brute": False, "skip_case": bool(lower) and not load}
    res = {"stream": [], "pops": [], "segments": [], "restored": None, "error": None, "next_calls": []}
    from lib_guesser.omen.markov_cracker import MarkovCracker

    def body():
        cfg = None
        if load:
            cfg = pcfg_guesser.load_save(sav, info)
            if cfg is None:
                raise RuntimeError("load_save failed")
        res["flags"] = {"skip_brute": info["skip_brute"], "skip_case": info["skip_case"]}
        pcfg = PcfgGrammar(rs["name"], rd, "4.7", sav, skip_brute=info["skip_brute"], skip_case=info["skip_case"], debug=False)
        if tables:
            vm, table, bases = rulesets.model_tables(pcfg)
            res["model"] = {"vm": vm, "table": table, "bases": bases,
                            "terms": [[(CAT.get(nm[0], 2), list(grp["values"])) for grp in pcfg.grammar[nm]] for nm in vm.names]}
        if not load:
            cfg = pcfg_guesser.create_save_config(info)
        if not cfg.has_option("rule_info", "uuid"):
            cfg.set("rule_info", "uuid", pcfg.ruleset_info["uuid"])
        stream = res["stream"]

        class Overflow(Exception):
            pass

        def print_guess(g):
            stream.append(g)
            if quit_after is not None and len(stream) == quit_after:
                pcfg.should_exit = True
            if len(stream) > cap:
                raise Overflow()
        pcfg.print_guess = print_guess
        real_create = pcfg.create_guesses

        def create_guesses(pt, *a, **k):
            res["segments"].append((len(stream), [tuple(x) for x in pt]))
            return real_create(pt, *a, **k)
        pcfg.create_guesses = create_guesses
        real_restore = pcfg.restore_omen

        def restore_omen(n, pt_item):
            r = real_restore(n, pt_item)
            res["restored"] = r
            return r
        pcfg.restore_omen = restore_omen
        # Which base-structure LINE a queue item descends from (the model's ghost tag, Next.v itag).  The
        # implementation's dictionaries do not carry it; two identical grammar.txt lines give items that are
        # equal as (pt, base_prob, prob).  It is followed here by object identity through the three places
        # that create queue items (instance attributes, no repository change): initalize_base_structures
        # (line index), find_children (children inherit), restore_prob_order (restored items inherit from
        # the base item walked).  Without it the model's order-following queue cannot tell the copies apart.
        tags, keep = {}, []
        real_init, real_fc, real_rpo = pcfg.initalize_base_structures, pcfg.find_children, pcfg.restore_prob_order

        def init_bs():
            items = real_init()
            for i, it in enumerate(items):
                tags[id(it)] = i
                keep.append(it)
            return items

        def find_children(pt_item):
            ch = list(real_fc(pt_item))
            for c in ch:
                tags[id(c)] = tags.get(id(pt_item))
                keep.append(c)
            return ch

        def restore_prob_order(pt_item, max_prob, min_prob, save_function):
            t = tags.get(id(pt_item))

            def save(it):
                tags[id(it)] = t
                keep.append(it)
                return save_function(it)
            return real_rpo(pt_item, max_prob, min_prob, save)
        pcfg.initalize_base_structures, pcfg.find_children, pcfg.restore_prob_order = init_bs, find_children, restore_prob_order

        class RecQueue(PcfgQueue):
            def next(self):
                it = PcfgQueue.next(self)
                res["pops"].append(None if it is None else ([tuple(x) for x in it["pt"]], it["prob"], it["base_prob"],
                                                            tags.get(id(it))))
                return it
        real_next = MarkovCracker.next_guess

        def next_guess(mc):
            if quit_in_next is not None and len(res["next_calls"]) + 1 == quit_in_next:
                pcfg.should_exit = True
            before = len(stream)
            g = real_next(mc)
            res["next_calls"].append((before, g is None))
            return g
        old_t, old_q = cs.threading, cs.PcfgQueue
        cs.threading, cs.PcfgQueue = _FakeThreading, RecQueue
        MarkovCracker.next_guess = next_guess
        try:
            sess = cs.CrackingSession(pcfg, cfg, sav)
            try:
                sess.run(load_session=load)
            except Overflow:
                res["error"] = "overflow"
        finally:
            cs.threading, cs.PcfgQueue = old_t, old_q
            MarkovCracker.next_guess = real_next
        res["cfg"] = {s: dict(cfg.items(s)) for s in cfg.sections()}
    try:
        common.quiet_call(body)
    except Exception as e:                      # the implementation raised
        res["error"] = "%s: %s" % (type(e).__name__, e)
    return res


def read_omn(path):
    """The five pickles of save_session; None when the file is truncated (save_session raised half-way)."""
    try:
        with open(path, "rb") as f:
            return [pickle.load(f) for _ in range(5)]
    except Exception:            # not five pickles (whatever else was written there): the model has no state to compare
        return None


def gen_case(rng, idx, variant=None):
    """A ruleset with a small OMEN model and Markov levels of 1..60 strings, in the variant's encoding and with an OMEN
    alphabet of the variant's kind (see ALPHABETS; symbols that no other terminal uses)."""
    variant = variant or {"encoding": "utf-8", "kind": "plain", "all_lower": False}
    enc = variant["encoding"]
    for _ in range(50):
        alpha = draw_alphabet(rng, enc, variant["kind"], rng.randint(2, 4))
        for c in alpha:
            c.encode(enc)
        om = omen_gen.gen_model(rng, {"ngram": rng.choice([2, 2, 3, 3, 4]), "alphabet": alpha,
                                      "ip_mode": rng.choice(["low", "mid", "two", "zero", "wide"]),
                                      "ln_mode": rng.choice(["low", "mid", "two", "zero"]),
                                      "cp_mode": rng.choice(["low", "mid", "two", "wide"])}, max_strings=600)
        buckets = omen_gen.brute_levels(om)
        good = [t for t, c in buckets.items() if 1 <= sum(c.values()) <= 60]
        if not good:
            continue
        if any(l < 10 for l, _ in om["ip"]) and any(l < 10 for i, l in enumerate(om["ln"]) if i + 1 >= om["ngram"]):
            break
    else:
        raise RuntimeError("no usable OMEN model")
    rs = rulesets.gen_ruleset(rng, with_markov=True, max_bases=2, max_len=2, name="S%d" % idx)
    rs["encoding"] = enc
    rs["c15_variant"] = dict(variant)
    if not is_utf8_like(enc):
        fit_terminals(rs, enc, rng)
    rng.shuffle(good)
    levels = good[:rng.randint(1, 3)]
    if rng.random() < 0.3:
        empty = [t for t in range(0, 12) if t not in buckets]
        if empty:
            levels.append(rng.choice(empty))          # a level without strings
    ps = rulesets.gen_probs(rng, len(levels), False)
    rs["omen"] = om
    rs["omen_prob"] = list(zip([str(l) for l in levels], ps))
    rs["omen_keyspace"] = {str(l): sum(buckets.get(l, Counter()).values()) for l in levels}
    return rs, om, buckets


def markov_level_of(pcfg_pt, rs):
    return None


def analyse(U, j, a, b, lvl_pt, R1, R2, replay):
    """Oracle for one cut: U uninterrupted run, [a,b) the level's guesses, quit after guess j
    (a <= j < b), R1 interrupted run, R2 resumed run."""
    vio = []
    S1, S2 = R1["stream"], R2["stream"]
    rest_level = U["stream"][j + 1:b]
    if R1["error"]:
        vio.append({"sig": "C15:interrupted-raises", "what": "the session quit after guess %d raised: %s" % (j + 1, R1["error"]),
                    "replay": replay})
        return vio, "bad"
    if S1 != U["stream"][:j + 1]:
        vio.append({"sig": "C15:interrupted-stream", "what": "run quit after guess %d emitted %d guesses, not the first %d of the "
                    "uninterrupted run" % (j + 1, len(S1), j + 1), "replay": replay})
        return vio, "bad"
    if R2["error"]:
        vio.append({"sig": "C15:resume-raises", "what": "resumed session raised: %s" % R2["error"], "replay": replay})
        return vio, "bad"
    following = U["pops"][U["level_pop_index"] + 1] if U["level_pop_index"] + 1 < len(U["pops"]) else None
    if following is None:
        # R18: the level was the last pre-terminal of the run
        if S2[:len(rest_level)] != rest_level or R2["restored"] is None:
            vio.append({"sig": "C15:last-preterminal-not-saved",
                        "what": "quit after guess %d inside the LAST pre-terminal (Markov level, %d guesses left): the next pop returned "
                                "None before the quit check, nothing was saved; the resumed run emits %d guesses starting %r instead of "
                                "the remainder %r" % (j + 1, len(rest_level), len(S2), S2[:3], rest_level[:3]), "replay": replay})
            return vio, "last"
        return vio, "last"
    first = S2[:R2["restored"]] if R2["restored"] is not None else None
    if first is None:
        vio.append({"sig": "C15:level-not-restored", "what": "quit after guess %d inside a Markov level: the resumed session did not restore "
                    "the level (no omen_guess_number in the save file); it starts with %r, remainder is %r" % (j + 1, S2[:3], rest_level[:3]),
                    "replay": replay})
        return vio, "bad"
    if first != rest_level:
        rep = [s for s in first if s in set(U["stream"][a:j + 1])]
        skipped = [s for s in rest_level if s not in set(first)]
        extra = [s for s in first if s not in set(U["stream"][a:b])]      # not a string of the level as THIS session generates it
        vio.append({"sig": "C15:remainder:" + ("repeated" if rep else "extra" if extra else "skipped" if skipped else "order"),
                    "what": "quit after guess %d of the run (position %d of %d in the level): the restored level emitted %d guesses %r..., "
                            "the remainder is %d guesses %r...; repeated %r skipped %r, not in the uninterrupted level at all %r"
                            % (j + 1, j - a + 1, b - a, len(first), first[:3], len(rest_level), rest_level[:3], rep[:2], skipped[:2], extra[:3]),
                    "replay": replay})
        return vio, "bad"
    # then the rest of the run: nothing lost; the level itself again only when tied with the saved probability
    saved_p = following[1]
    tied = (U["pops"][U["level_pop_index"]][1] == saved_p)
    later = [p for p in R2["pops"] if p is not None]
    again = sum(1 for p in later if p[0] == lvl_pt)
    if again and not tied:
        vio.append({"sig": "C15:level-regenerated", "what": "the interrupted level's pre-terminal %r is popped again after the resume although "
                    "its probability differs from the saved one" % (lvl_pt,), "replay": replay})
    want = Counter(json.dumps(p[0]) for p in U["pops"][U["level_pop_index"] + 1:] if p is not None)
    got = Counter(json.dumps(p[0]) for p in later)
    if want - got:
        vio.append({"sig": "C15:rest-lost", "what": "pre-terminals after the interrupted level are never generated after the resume: %r"
                    % list((want - got))[:2], "replay": replay})
    extra = got - want
    for e in extra:
        pr = [p[1] for p in later if json.dumps(p[0]) == e]
        if any(x != saved_p for x in pr):
            vio.append({"sig": "C15:rest-repeats", "what": "pre-terminal %s generated again after the resume with probability %r != saved %r"
                        % (e, pr[0], saved_p), "replay": replay})
            break
    if not tied and not extra and S1 + S2 != U["stream"]:
        # same pre-terminals, so only the order inside a run of equal probability may differ
        if Counter(S1 + S2) != Counter(U["stream"]):
            vio.append({"sig": "C15:concatenation", "what": "interrupted + resumed streams differ from the uninterrupted stream as multisets",
                        "replay": replay})
    return vio, ("tied" if tied else "ok")


def exhausting_call(run, markov_ordinal):
    """1-based index of the next_guess call that returns None for the markov_ordinal-th
    group of calls of a session (groups end with a None call)."""
    g = 0
    for i, (_, none) in enumerate(run["next_calls"]):
        if none:
            if g == markov_ordinal:
                return i + 1
            g += 1
    return None


def analyse_complete(U, b, lvl_pt, R1, R2, replay, level_strings):
    """First-cycle quit raised during the level's exhausting next_guess call: the level is
    complete, nothing of it may be restored or repeated (unless tied), nothing after it lost."""
    vio = []
    if R1["stream"] != U["stream"][:b]:
        return [{"sig": "C15:interrupted-stream", "what": "quit raised during the exhausting next_guess call: interrupted run emitted %d "
                 "guesses, the level ends at %d" % (len(R1["stream"]), b), "replay": replay}], "bad"
    following = U["pops"][U["level_pop_index"] + 1] if U["level_pop_index"] + 1 < len(U["pops"]) else None
    if following is None:
        return vio, "last"
    if R2["error"]:
        return [{"sig": "C15:resume-raises", "what": "resumed session raised: %s" % R2["error"], "replay": replay}], "bad"
    if R2["restored"] is not None:
        vio.append({"sig": "C15:complete-level-restored", "what": "quit raised while next_guess was finding the level exhausted: the resumed "
                    "session restores an OMEN position and emits %r..." % R2["stream"][:3], "replay": replay})
        return vio, "bad"
    saved_p = following[1]
    tied = (U["pops"][U["level_pop_index"]][1] == saved_p)
    later = [p for p in R2["pops"] if p is not None]
    if any(p[0] == lvl_pt for p in later) and not tied:
        vio.append({"sig": "C15:level-regenerated", "what": "the completed level %r is generated again after the resume" % (lvl_pt,),
                    "replay": replay})
    want = Counter(json.dumps(p[0]) for p in U["pops"][U["level_pop_index"] + 1:] if p is not None)
    got = Counter(json.dumps(p[0]) for p in later)
    if want - got:
        vio.append({"sig": "C15:rest-lost", "what": "pre-terminals after the level are never generated after the resume: %r"
                    % list((want - got))[:2], "replay": replay})
    return vio, ("tied" if tied else "ok")


def explore(ctx, rs, om, buckets, sc, dist, cases, samples, max_cuts, two_cases, ms_rulesets, lower=False):
    """lower: the session is started with --all_lower (every first run of a history; resumed runs take it from the save file)."""
    vio = []
    rd = os.path.join(sc, "Rules", rs["name"])
    write_rules(rs, rd)
    sav = os.path.join(sc, "sess_%s.sav" % rs["name"])
    omn = sav[:-4] + ".omn"
    U = run_session(rs, rd, sav, False, tables=True, lower=lower)
    if U["error"]:
        dist["uninterrupted_error"] += 1
        return vio, 0, 0
    dist["rulesets"] += 1
    ms = {"name": rs["name"], "U": U, "om": om, "cases": []}
    ms_rulesets.append(ms)
    stream = U["stream"]
    segs = U["segments"] + [(len(stream), None)]
    levels = []
    for i, (start, pt) in enumerate(U["segments"]):
        if pt[0][0] == "M":
            a, b = start, segs[i + 1][0]
            if 1 <= b - a <= 60:
                levels.append((i, a, b, pt))
    evaluations = nontrivial = 0
    for (seg_i, a, b, pt) in levels:
        # the pop that produced this segment
        pop_index = [k for k, p in enumerate(U["pops"]) if p is not None and p[0] == pt][0]
        U["level_pop_index"] = pop_index
        T = None
        js = list(range(a, b))
        if len(js) > max_cuts:
            # always: the ends; a guess with and one without a non-ASCII character; a guess with and one without an upper-case
            # letter; the last guess before which / after which the level still has a string with an upper-case letter
            keep = {a, b - 1}
            has_up = lambda g: g != g.lower()
            for pred in (lambda j: not stream[j].isascii(), lambda j: stream[j].isascii(), lambda j: has_up(stream[j]),
                         lambda j: not has_up(stream[j]) and any(has_up(g) for g in stream[j + 1:b])):
                pool = [j for j in js if pred(j)]
                if pool:
                    keep.add(ctx.rng.choice(pool))
            rest = [j for j in js if j not in keep]
            keep |= set(ctx.rng.sample(rest, max(0, min(len(rest), max_cuts - len(keep)))))
            js = sorted(keep)
        two_cycle_js = set(ctx.rng.sample(js, min(len(js), 2)))
        markov_ordinal = sum(1 for (_, p2) in U["segments"][:seg_i] if p2[0][0] == "M")
        # (i) quit raised while next_guess is finding the level exhausted
        m_ex = exhausting_call(U, markov_ordinal)
        if m_ex is not None:
            for f in (sav, omn):
                if os.path.exists(f):
                    os.remove(f)
            replay = {"ruleset": rs, "all_lower": lower, "quit_in_next": m_ex}
            R1 = run_session(rs, rd, sav, False, quit_in_next=m_ex, lower=lower)
            R2 = run_session(rs, rd, sav, True)
            v, kind = analyse_complete(U, b, pt, R1, R2, replay, set(stream[a:b]))
            vio += v
            evaluations += 1
            dist["quit_in_exhausting_call_first_cycle"] += 1
            dist["quit_in_exhausting_call_first_cycle_" + kind] += 1
        # (ii) a quit raised inside the call that returns guess j is the quit after guess j
        jn = ctx.rng.choice(js)
        m_j = m_ex - (b - jn) if m_ex is not None else None
        if m_j is not None and m_j >= 1:
            for f in (sav, omn):
                if os.path.exists(f):
                    os.remove(f)
            Ra = run_session(rs, rd, sav, False, quit_after=jn + 1, lower=lower)
            sa = read_omn(omn) if os.path.exists(omn) else None
            for f in (sav, omn):
                if os.path.exists(f):
                    os.remove(f)
            Rb = run_session(rs, rd, sav, False, quit_in_next=m_j, lower=lower)
            sb = read_omn(omn) if os.path.exists(omn) else None
            evaluations += 1
            dist["quit_inside_kth_call"] += 1
            if Ra["stream"] != Rb["stream"] or sa != sb or Ra.get("cfg", {}).get("guessing_info") != Rb.get("cfg", {}).get("guessing_info"):
                vio.append({"sig": "C15:quit-inside-call-differs", "what": "quit raised inside the next_guess call returning guess %d differs "
                            "from the quit after that guess (streams %d/%d, states %r / %r)"
                            % (jn + 1, len(Ra["stream"]), len(Rb["stream"]), sa, sb), "replay": {"ruleset": rs, "all_lower": lower, "quit_in_next": m_j}})
        for j in js:
            for f in (sav, omn):
                if os.path.exists(f):
                    os.remove(f)
            replay = {"ruleset": rs, "all_lower": lower, "quit_after": j + 1}
            R1 = run_session(rs, rd, sav, False, quit_after=j + 1, lower=lower)
            state = read_omn(omn) if os.path.exists(omn) else None
            cfg1 = R1.get("cfg", {})
            R2 = run_session(rs, rd, sav, True)
            v, kind = analyse(U, j, a, b, pt, R1, R2, replay)
            vio += v
            gi = cfg1.get("guessing_info", {})
            if kind in ("ok", "tied") and gi.get("omen_guess_number") != str(j - a + 1):
                vio.append({"sig": "C15:guess-number", "what": "quit after guess %d of the level: the save file records omen_guess_number=%r"
                            % (j - a + 1, gi.get("omen_guess_number")), "replay": replay})
            evaluations += 1
            dist["cuts"] += 1
            dist["cuts_" + kind] += 1
            if kind in ("ok", "tied", "bad"):
                g = stream[j]
                if not g.isascii():
                    dist["cuts_after_non_ascii_guess"] += 1
                    if not is_utf8_like(rs["encoding"]):
                        dist["cuts_after_non_ascii_guess_" + rs["encoding"]] += 1
                elif not is_utf8_like(rs["encoding"]):
                    dist["cuts_after_ascii_guess_" + rs["encoding"]] += 1
                if lower:
                    dist["cuts_all_lower"] += 1
                    if any(x != x.lower() for x in stream[j + 1:b]):
                        dist["cuts_all_lower_upper_case_strings_remaining"] += 1
            if not R1["error"] and not R2["error"] and "model" in U:
                # the same history for the combined session model (MarkovSession.v)
                saved_here = bool(R1["pops"]) and R1["pops"][-1] is not None and "omen_guess_number" in gi and state is not None
                ms["cases"].append({"k": pop_index, "j": j - a + 1, "a": a, "b": b, "cut": j,
                                    "order1": [q for q in R1["pops"] if q is not None], "out1": R1["stream"],
                                    "file": (float(gi["max_probability"]), int(gi["omen_guess_number"]), state) if saved_here else None,
                                    "order2": [q for q in R2["pops"] if q is not None], "out2": R2["stream"],
                                    "rest": R2["restored"] if R2["restored"] is not None else 0, "kind": kind, "replay": replay})
            if j - a + 1 < b - a and j > a:
                nontrivial += 1          # strictly inside the level
            if state is not None and R2["restored"] is not None and not R2["error"]:
                T = state[0]
                cases.append({"om": om, "T": T, "j": j - a, "state": state, "rest": R2["stream"][:R2["restored"]],
                              "replay": replay})
                if len(samples) < 3 and j > a:
                    samples.append({"ngram": om["ngram"], "level": T, "level_size": b - a, "quit_after_level_guess": j - a + 1,
                                    "saved_state": state, "resumed_first": R2["stream"][:3], "uninterrupted_next": stream[j + 1:j + 4]})
            # later quit/resume cycles must not replay the remainder
            if j in two_cycle_js and kind in ("ok", "tied") and len(R2["stream"]) >= 2:
                n2 = len(R2["stream"])
                rem = b - (j + 1)
                # second quit: somewhere after the remainder (so a non-Markov quit), and once inside the remainder
                choices = [q for q in range(rem + 1, n2)] or []
                q2s = ([ctx.rng.choice(choices)] if choices else []) + ([ctx.rng.randint(1, rem)] if rem >= 1 else [])
                if rem >= 1 and rem not in q2s:
                    q2s.append(rem)                      # at the last guess of the restored remainder
                events = [("print", q) for q in q2s]
                events.append(("next", rem + 1))         # while next_guess finds the restored level exhausted
                if rem >= 1:
                    events.append(("next", ctx.rng.randint(1, rem)))   # inside the call returning a guess of the remainder
                for kind2, q2 in events:
                    exhausting = (kind2 == "next" and q2 == rem + 1)
                    qa = q2 if kind2 == "print" else None
                    qn = q2 if kind2 == "next" else None
                    if exhausting:
                        q2 = rem          # the second session emits exactly the remainder
                    # redo cycle 1 to have fresh save files
                    for f in (sav, omn):
                        if os.path.exists(f):
                            os.remove(f)
                    run_session(rs, rd, sav, False, quit_after=j + 1, lower=lower)
                    state1 = read_omn(omn) if os.path.exists(omn) else None
                    R2q = run_session(rs, rd, sav, True, quit_after=qa, quit_in_next=qn)
                    state2 = read_omn(omn) if os.path.exists(omn) else None
                    R3 = run_session(rs, rd, sav, True)
                    dist["two_cycle_histories"] += 1
                    evaluations += 1
                    rp = dict(replay, then_quit_after=qa, then_quit_in_next=qn)
                    dist["second_quit_" + ("in_exhausting_call" if exhausting else "inside_call" if qn else "after_print")] += 1
                    # (a quit inside an ordinary pre-terminal lets that pre-terminal finish)
                    if len(R2q["stream"]) < q2 or R2q["stream"] != R2["stream"][:len(R2q["stream"])] or R3["error"]:
                        vio.append({"sig": "C15:second-cycle-stream", "what": "second interrupted run differs from the resumed run's prefix "
                                    "or third run raised (%r)" % R3["error"], "replay": rp})
                        continue
                    # was the second quit saved at all? (a further pop must follow it)
                    saved2 = R2q["pops"] and R2q["pops"][-1] is not None
                    if not saved2:
                        dist["second_quit_in_last_preterminal"] += 1
                        continue
                    S3 = R3["stream"]
                    level_strings = set(stream[a:b])
                    seg2 = [pt2 for (st2, pt2) in R2q["segments"] if st2 <= q2 - 1]
                    other_markov = (not exhausting) and q2 > rem and seg2 and seg2[-1][0][0] == "M"
                    inside = (q2 <= rem) and not exhausting       # the quit check after a guess of the restored level fired
                    if state1 is not None and state2 is not None and not other_markov:
                        two_cases.append({"om": om, "state1": state1, "inside": inside, "state2": state2,
                                          "third": None if R3["restored"] is None else S3[:R3["restored"]],
                                          "replay": rp})
                    if other_markov:
                        dist["second_quit_in_another_markov_level"] += 1
                        continue
                    if not inside:
                        # the restored level ran to its end (quit outside the level, or raised while next_guess found it
                        # exhausted): nothing of the level may come again (unless tied group)
                        replayed = [s for s in S3[:R3["restored"]] if s in level_strings] if R3["restored"] is not None else []
                        if R3["restored"] is not None and replayed:
                            where = ("while next_guess() was finding the restored level exhausted (after its last guess was written)"
                                     if exhausting else "after %d more guesses (outside the level)" % q2)
                            vio.append({"sig": "C15:stale-replay",
                                        "what": "level of %d strings quit after its guess %d, resumed (remainder of %d emitted once), second quit "
                                                "%s, resumed again: the third run first replays %d string(s) of the level's remainder again, "
                                                "e.g. %r (stale omen_guess_number and .omn are restored)"
                                                % (b - a, j - a + 1, rem, where, len(replayed), replayed[:3]), "replay": rp})
                    else:
                        # quit after a guess of the remainder: the third run must start with the rest of the remainder
                        want = R2["stream"][q2:rem]
                        got = S3[:R3["restored"]] if R3["restored"] is not None else None
                        if got != want:
                            vio.append({"sig": "C15:second-cut-remainder", "what": "second quit inside the restored level after %d of %d "
                                        "remaining guesses: third run restores %r..., expected %r..." % (q2, rem, (got or [])[:3], want[:3]),
                                        "replay": rp})
    return vio, evaluations, nontrivial



# ---------------------------------------------------------------- named sessions through the real pcfg_guesser.main()
#
# Everything above drives CrackingSession with a save-file path the harness chose.  Which files a session NAMED on the
# command line reads and writes (<name>.sav, the OMEN position file derived from it) is decided by pcfg_guesser.main() and
# PcfgGrammar; this stage runs the real main() (harness/main_driver.py, a scratch copy of the code tree) on histories that
# interleave two or three sessions of one ruleset under names an implementation could confuse, each quit inside Markov
# levels at its own positions and resumed with --load after the OTHER sessions were interrupted.  Every session on its own
# must emit the uninterrupted run: the restored part of each resumed run is the remainder of ITS interrupted level.

NAMED_RULESETS = (12, 60)       # quick, thorough
NAME_STEMS = ["night", "run", "crack", "rockyou", "s", "ab", "my.list", "Wörter"]


def name_family(rng):
    """(kind, [distinct names]): session names that differ only in a tail, an extension-like suffix, dots, spaces, case or
    non-ASCII letters - whatever a rule deriving file names from the session name might drop or fold."""
    stem = rng.choice(NAME_STEMS)
    kind = rng.choice(["plain", "tail", "tail", "dotted-tail", "dotted-tail", "short-tail", "multi-dot", "ext", "prefix",
                       "edge-dots", "space", "unicode", "case", "mixed"])
    if kind == "mixed":
        names = []
        for _ in range(3):
            names.append(rng.choice(name_family(rng)[1]))
        return kind, list(dict.fromkeys(names))
    if kind == "plain":
        names = rng.sample(["alpha", "beta", "gamma", stem + "A", stem + "B", stem + "_2", stem + "-3", "default_run"], 3)
    elif kind in ("tail", "dotted-tail"):
        sep = "." if kind == "dotted-tail" else rng.choice(["", "_", "-", " ", ".v", "#"])
        width = rng.choice([4, 4, 4, 3, 5, 8])
        base = "".join(rng.choice("0123456789") for _ in range(width))
        tails = {base}
        while len(tails) < 3:
            k = rng.randint(1, min(3, width))                 # the last k characters differ
            t = base[:width - k] + "".join(rng.choice("0123456789abc") for _ in range(k))
            tails.add(t)
        names = [stem + sep + t for t in sorted(tails)]
    elif kind == "short-tail":
        sep = rng.choice([".", ".", "_", ""])
        names = [stem + sep + t for t in rng.sample(["1", "2", "10", "b", "c", "bc", "bd", "v1", "v2", "old", "new"], 3)]
    elif kind == "multi-dot":
        names = rng.sample(["a.b.c", "a.b.d", "a.c.b", "a..b", "a.b", "a.b.c.d", stem + ".2024.a", stem + ".2024.b", stem + ".2025.a"], 3)
    elif kind == "ext":
        other = rng.choice([x for x in NAME_STEMS if x != stem])
        names = rng.sample([stem + ".sav", other + ".sav", stem + ".omn", other + ".omn", stem + ".sav.sav", stem + ".txt",
                            stem + ".save", stem + ".sa", stem + ".savx", other + ".SAV"], 3)
    elif kind == "prefix":
        names = rng.sample([stem, stem + "x", stem + "xy", stem + "xyz", stem + "xyzw", stem + "xyzwv", stem[:1], stem[:2] + "_"], 3)
    elif kind == "edge-dots":
        names = rng.sample(["." + stem, stem + ".", stem + "..", ".." + stem, "." + stem + ".", stem + ". ", "...", "...."], 3)
    elif kind == "space":
        names = rng.sample([stem + " one", stem + " two", stem + "  one", " " + stem, stem + " ", stem + " 2024", stem + " 2025",
                            "my run", "my run.2", "my run.3"], 3)
    elif kind == "unicode":
        names = rng.sample(["сессия.1", "сессия.2", "сессия", "nuit.été", "nuit.étè", "nuit.ete", "日本.語一", "日本.語二",
                            "ночь.2024", "ночь.2025", "naïve", "naïvé", "ß.1", "ss.1"], 3)
    else:   # case
        names = rng.sample([stem + ".Sav", stem + ".SAV", stem + ".one", stem + ".One", stem.upper() + ".one", stem + ".ONE", stem.capitalize()], 3)
    return kind, list(dict.fromkeys(names))


def usable_names(names, probe_dir):
    """The names the file system can tell apart as <name>.sav files; no name is another name plus '.sav' / '.omn' (whether
    '-s run.sav' means the session 'run' is not this property's business), none starts with '-' (an option to argparse)."""
    ok = []
    for n in names:
        if n.startswith("-") or "/" in n or "\x00" in n or any(n == m + e or m == n + e for m in ok for e in (".sav", ".omn")):
            continue
        d = os.path.join(probe_dir, "probe%d" % len(os.listdir(probe_dir)))
        try:
            os.makedirs(d)
            for m in ok + [n]:
                with open(os.path.join(d, m + ".sav"), "w") as f:
                    f.write(m)
            same = len(os.listdir(d)) == len(ok) + 1 and all(open(os.path.join(d, m + ".sav")).read() == m for m in ok + [n])
        except (OSError, UnicodeError, ValueError):
            same = False
        if same:
            ok.append(n)
    return ok


REF_ERRORS = []


def named_reference(code, rs, cap=4000, lower=False):
    """The uninterrupted run of main() for the ruleset (lower: started with --all_lower), with the places a quit can be delivered.  None unless every
    pre-terminal of the run has its own probability (then the resumed queue has exactly one order, and each session's
    outputs concatenate to the reference run EXACTLY) and some Markov level of >= 3 strings is followed by a further
    pre-terminal (R18: a quit in the final pre-terminal is not saved)."""
    r = common.run_main_driver(code, ["-r", rs["name"], "-s", "reference run"] + (["--all_lower"] if lower else []), cap=cap)
    if r.get("error") or not r["pops"] or len(r.get("pop_at", [])) != len(r["pops"]):
        REF_ERRORS.append(str(r.get("error")))
        return None
    probs = [p[1] for p in r["pops"]]
    if len(set(probs)) != len(probs):
        return None
    out, at = r["out"], r["pop_at"] + [len(r["out"])]
    segs = []                                   # (start, end, is_markov, pt)
    for i, (pt, _) in enumerate(r["pops"]):
        segs.append((at[i], at[i + 1], pt[0][0] == "M", [tuple(x) for x in pt]))
    seg_of = {}
    for i, (a, b, m, _) in enumerate(segs[:-1]):        # never the final pre-terminal
        for g in range(a + 1, b + 1):                   # g = guesses written when the quit is raised
            seg_of[g] = i
    if not any(m and b - a >= 3 for (a, b, m, _) in segs[:-1]):
        return None
    return {"stream": out, "pops": [([tuple(x) for x in pt], pr) for pt, pr in r["pops"]], "segs": segs, "seg_of": seg_of}


def stop_of(U, g):
    """Where a run stops whose quit is raised right after guess g of the reference run: there if g is inside a Markov level,
    at the end of the pre-terminal otherwise."""
    a, b, m, _ = U["segs"][U["seg_of"][g]]
    return g if m else b


def gen_history(rng, Us, names):
    """Events [name, load, quit_after (guesses of THAT run) or None]: per session 1-3 quits at increasing places of its own,
    mostly inside Markov levels, then --load to the end; all sessions are started before any is resumed, the rest is a
    random interleaving.  Us: name -> reference run of that session's options."""
    per, firsts = {}, set()
    for n in names:
        U = Us[n]
        markov = [g for g, i in U["seg_of"].items() if U["segs"][i][2]]
        anyg = sorted(U["seg_of"])
        cuts, done = [], 0
        for c in range(rng.randint(1, 3)):
            pool = [g for g in (markov if rng.random() < (0.95 if c == 0 else 0.75) else anyg) if g > done]
            if c == 0 and len(pool) > len(firsts):
                pool = [g for g in pool if g not in firsts]       # sessions stop at different places
            if not pool:
                break
            g = rng.choice(pool)
            if c == 0:
                firsts.add(g)
            cuts.append(g - done)
            done = stop_of(U, g)
        per[n] = [[n, False, cuts[0]]] + [[n, True, q] for q in cuts[1:]] + [[n, True, None]]
    order = list(names)
    rng.shuffle(order)
    events = [per[n].pop(0) for n in order]
    while any(per.values()):
        n = rng.choice([n for n in names if per[n]])
        events.append(per[n].pop(0))
    return events


def run_history(code, rs, events, cap=4000, lower_names=()):
    # every invocation is a new process with its own string-hash salt (PYTHONHASHSEED differs from run to run, deterministically);
    # --all_lower is typed when a session of lower_names is STARTED, never with --load (the save file carries it)
    return [common.run_main_driver(code, ["-r", rs["name"], "-s", n] + (["--load"] if load else ["--all_lower"] if n in lower_names else []),
                                   quit_after_guesses=q, cap=cap,
                                   hashseed=(0, 101, 20222, 7, 4242)[i % 5])
            for i, (n, load, q) in enumerate(events)]


def judge_history(Us, events, results, replay):
    """Per session: every run emits exactly the next piece of the reference run UNDER THAT SESSION'S OPTIONS (Us: name ->
    reference); the first difference is reported (with the sigs of `analyse`, which also judges the last interrupted / final
    pair as a whole)."""
    vio, stats = [], Counter()
    for name in dict.fromkeys(e[0] for e in events):
        U = Us[name]
        stream = U["stream"]
        runs = [(k, e, results[k]) for k, e in enumerate(events) if e[0] == name]
        emitted, pending, outs = 0, None, []
        bad = False
        for t, (k, (_, load, q), r) in enumerate(runs):
            others = sorted(set(e[0] for e in events[:k] if e[0] != name))
            ctx_txt = "session %r (run %d of it, event %d of the history; other sessions run before: %r)" % (name, t + 1, k + 1, others)
            if r.get("error"):
                vio.append({"sig": "C15:resume-raises" if load else "C15:interrupted-raises",
                            "what": "named sessions through main(): %s failed: %s" % (ctx_txt, r["error"]), "replay": replay})
                bad = True
                break
            if q is not None and emitted + q not in U["seg_of"]:
                stats["sessions_not_judged_further"] += 1       # (only after an ordinary pre-terminal stopped elsewhere than scripted)
                bad = True
                break
            end = len(stream) if q is None else stop_of(U, emitted + q)
            want, got = stream[emitted:end], r["out"]
            if q is not None and not U["segs"][U["seg_of"][emitted + q]][2] and emitted + q <= emitted + len(got) <= end \
                    and emitted + len(got) in U["seg_of"] and got == want[:len(got)]:
                # the property does not say where a quit inside an ORDINARY pre-terminal takes effect (today: at its end)
                end = emitted + len(got)
                want = got
            if got != want:
                if pending is not None:
                    a, b = pending
                    rem = stream[emitted:b]
                    n = len(rem) if q is None else min(len(rem), q)
                    first, wfirst = got[:n], rem[:n]
                else:
                    first = wfirst = None
                if first != wfirst:
                    before = set(stream[a:emitted])
                    rep = [x for x in first if x in before]
                    skipped = [x for x in wfirst if x not in set(first)]
                    extra = [x for x in first if x not in set(stream[a:b])]
                    vio.append({"sig": "C15:remainder:" + ("repeated" if rep else "extra" if extra else "skipped" if skipped else "order"),
                                "what": "named sessions through main(): %s was quit after guess %d of a Markov level of %d strings and resumed with "
                                        "--load: it starts with %r..., the remainder of its level is %d strings %r...; repeated %r skipped %r, "
                                        "not in the uninterrupted level at all %r"
                                        % (ctx_txt, emitted - a, b - a, first[:3], len(rem), rem[:3], rep[:2], skipped[:2], extra[:3]), "replay": replay})
                else:
                    i = next((x for x in range(min(len(got), len(want))) if got[x] != want[x]), min(len(got), len(want)))
                    vio.append({"sig": "C15:named-session:stream",
                                "what": "named sessions through main(): %s emitted %d guesses, the next piece of the uninterrupted run has %d; first "
                                        "difference at its guess %d: %r, expected %r"
                                        % (ctx_txt, len(got), len(want), i + 1, got[i] if i < len(got) else None, want[i] if i < len(want) else None),
                                "replay": replay})
                bad = True
                break
            outs.append(got)
            before_last = (emitted, pending)
            emitted = end
            stats["runs_ok"] += 1
            pending = None
            if q is not None:
                a, b, m, _ = U["segs"][U["seg_of"][end]]
                pending = (a, b) if m else None
                stats["quit_in_markov_level" if m else "quit_in_ordinary_preterminal"] += 1
        if bad:
            continue
        # the judge of the single-session histories on (everything before the last resume, the last resume)
        if len(runs) >= 2 and runs[-1][1][2] is None and before_last[1] is not None:
            j = before_last[0] - 1              # index of the last guess written before the final resume
            a, b = before_last[1]
            last = runs[-1][2]
            idx = U["seg_of"][j + 1]
            U2 = {"stream": stream, "pops": U["pops"], "level_pop_index": idx}
            R1 = {"stream": [x for o in outs[:-1] for x in o], "error": None}
            at = last.get("pop_at") or []
            R2 = {"stream": last["out"], "error": None, "restored": at[0] if at else len(last["out"]),
                  "pops": [([tuple(x) for x in pt], pr) for pt, pr in last["pops"]]}
            v, kind = analyse(U2, j, a, b, U["segs"][idx][3], R1, R2, replay)
            vio += v
            stats["final_pair_" + kind] += 1
    return vio, stats


def interleaved_resumes(Us, events):
    """Resumed runs of a session interrupted inside a Markov level BETWEEN whose interruption and resume another session
    was interrupted inside a Markov level (the histories where a shared position file would show)."""
    n, pos, last_markov_quit = 0, {}, {}
    for k, (name, load, q) in enumerate(events):
        U = Us[name]
        if load and name in last_markov_quit and any(k2 > last_markov_quit[name] for m, k2 in last_markov_quit.items() if m != name):
            n += 1
        if q is not None:
            end = stop_of(U, pos.get(name, 0) + q)
            pos[name] = end
            if U["segs"][U["seg_of"][end]][2]:
                last_markov_quit[name] = k
            else:
                last_markov_quit.pop(name, None)
        else:
            last_markov_quit.pop(name, None)
    return n


NAMED_MODES = ["default", "lower", "mixed", "lower", "default"]      # which sessions of a named-sessions ruleset are started with --all_lower


def gen_named_ruleset(rng, idx, variant=None):
    """gen_case, the Markov base structure mostly moved to the most probable line (the first pre-terminals are Markov levels)."""
    rs, om, buckets = gen_case(rng, idx, variant)
    rs["name"] = "N%d" % idx
    if rng.random() < 0.7:
        structs = [s for s, _ in rs["grammar"]]
        ps = [p for _, p in rs["grammar"]]
        structs.remove("M")
        rs["grammar"] = list(zip(["M"] + structs, ps))
    return rs


def named_sessions(ctx, dist, samples):
    """The stage: rulesets x name families x interleaved histories, each history in its own scratch copy of the code tree."""
    vio, evaluations, nontrivial = [], 0, 0
    nrs, nhist = ctx.scale(*NAMED_RULESETS), ctx.scale(4, 6)
    probe = common.scratch()
    pre = common.scratch()
    tries, jobs = 0, []
    for i in range(nrs):
        # the ruleset's variant (encoding, OMEN alphabet) and which of its sessions are started with --all_lower: fixed per index
        variant = variant_of(i, shift=1)
        mode = NAMED_MODES[i % len(NAMED_MODES)]
        need = {"default": [False], "lower": [True], "mixed": [False, True]}[mode]
        refs = None
        while refs is None and tries < 60 * nrs:
            tries += 1
            rs = gen_named_ruleset(ctx.rng, i, variant)
            # cheap look at the run in this process first (same conditions as named_reference), under each set of options needed
            rd = os.path.join(pre, "Rules", rs["name"])
            shutil.rmtree(rd, ignore_errors=True)
            write_rules(rs, rd)
            usable = True
            for lw in need:
                P = run_session(rs, rd, os.path.join(pre, "pre.sav"), False, cap=1500, lower=lw)
                pp = [p for p in P["pops"] if p is not None]
                if P["error"] or len(set(p[1] for p in pp)) != len(pp):
                    usable = False
                    break
            if not usable:
                continue
            dist["named_reference_runs"] += 1
            code = common.copy_code_tree(common.scratch())
            write_rules(rs, os.path.join(code, "Rules", rs["name"]))
            got = {}
            for lw in need:
                got[lw] = named_reference(code, rs, lower=lw)
                if got[lw] is None:
                    break
            shutil.rmtree(code, ignore_errors=True)
            if all(got.get(lw) is not None for lw in need):
                refs = got
        if refs is None:
            break
        dist["named_rulesets"] += 1
        dist["named_rulesets_" + mode] += 1
        dist["named_rulesets_encoding_" + variant["encoding"]] += 1
        dist["named_rulesets_alphabet_" + variant["kind"]] += 1
        for h in range(nhist):
            kind, fam = name_family(ctx.rng)
            names = usable_names(fam, probe)
            dist["named_names_refused_by_os_or_rule"] += len(fam) - len(names)
            if len(names) < 2:
                continue
            names = names[:3] if ctx.rng.random() < 0.35 else names[:2]
            if mode == "mixed":
                # sessions of ONE ruleset under different options: at least one of each
                flags = [True, False] + [ctx.rng.random() < 0.5 for _ in names[2:]]
                ctx.rng.shuffle(flags)
            else:
                flags = [mode == "lower"] * len(names)
            lower_names = [n for n, f in zip(names, flags) if f]
            Us = {n: refs[f] for n, f in zip(names, flags)}
            jobs.append((rs, Us, kind, names, gen_history(ctx.rng, Us, names), lower_names))

    def execute(job):
        rs, Us, kind, names, events, lower_names = job
        code = common.copy_code_tree(common.scratch())
        try:
            write_rules(rs, os.path.join(code, "Rules", rs["name"]))
            return run_history(code, rs, events, lower_names=lower_names)
        finally:
            shutil.rmtree(code, ignore_errors=True)
    # the histories are independent (a code copy each): a few at a time
    from concurrent.futures import ThreadPoolExecutor
    with ThreadPoolExecutor(max_workers=max(1, min(6, common.NCPU // 3))) as pool:
        all_results = list(pool.map(execute, jobs))
    for (rs, Us, kind, names, events, lower_names), results in zip(jobs, all_results):
        replay = {"ruleset": rs, "cli": "named-sessions", "events": events, "all_lower_sessions": lower_names}
        v, stats = judge_history(Us, events, results, replay)
        vio += v
        il = interleaved_resumes(Us, events)
        U = Us[names[0]]
        dist["named_sessions_all_lower"] += len(lower_names)
        dist["named_sessions_default_options"] += len(names) - len(lower_names)
        # quits inside Markov levels right after a guess with a character outside ASCII, per encoding
        pos = {}
        for (n, load, q) in events:
            if q is not None and pos.get(n, 0) + q in Us[n]["seg_of"]:
                end = stop_of(Us[n], pos.get(n, 0) + q)
                pos[n] = end
                if Us[n]["segs"][Us[n]["seg_of"][end]][2]:
                    g = Us[n]["stream"][end - 1]
                    dist["named_markov_quits_after_%s_guess_%s" % ("ascii" if g.isascii() else "non_ascii", rs["encoding"])] += 1
                    if n in lower_names and any(x != x.lower() for x in Us[n]["stream"][end:Us[n]["segs"][Us[n]["seg_of"][end]][1]]):
                        dist["named_markov_quits_all_lower_upper_case_strings_remaining"] += 1
        dist["named_histories"] += 1
        dist["named_histories_%d_sessions" % len(names)] += 1
        dist["named_family_" + kind] += 1
        dist["named_runs"] += len(events)
        dist["named_interleaved_resumes"] += il
        for k2, c in stats.items():
            dist["named_" + k2] += c
        evaluations += len(names)
        nontrivial += 1 if il else 0
        if len([x for x in samples if "named_sessions" in x]) < 2 and il:
            samples.append({"named_sessions": names, "all_lower_sessions": lower_names, "encoding": rs["encoding"], "events": events,
                            "reference_guesses": len(U["stream"]),
                            "markov_levels": [(a, b) for (a, b, m, _) in U["segs"] if m]})
    return vio, evaluations, nontrivial


def named_replay(inp):
    rs, events = inp["ruleset"], [list(e) for e in inp["events"]]
    lower_names = list(inp.get("all_lower_sessions") or [])
    names = list(dict.fromkeys(e[0] for e in events))
    code = common.copy_code_tree(common.scratch())
    write_rules(rs, os.path.join(code, "Rules", rs["name"]))
    refs = {}
    for lw in sorted(set(n in lower_names for n in names)):
        refs[lw] = named_reference(code, rs, lower=lw)
        if refs[lw] is None:
            return []
    Us = {n: refs[n in lower_names] for n in names}
    code2 = common.copy_code_tree(common.scratch())
    write_rules(rs, os.path.join(code2, "Rules", rs["name"]))
    results = run_history(code2, rs, events, lower_names=lower_names)
    return judge_history(Us, events, results, inp)[0]


HEADER = ["From Coq Require Import List Bool NArith ZArith.", "From Pcfg Require Import OmenSpec Omen OmenCorr.",
          "From PcfgGen Require Import Consts_gen.", "Import ListNotations.", "Open Scope nat_scope."]


def consts():
    import consts.omen_gen as cg
    return cg.extract()


def coq_state(state):
    T, ipc, lnc, tree, fg = state
    return "((%d)%%Z, (%d, %d), (%d, %d), %s, %s)" % (T, ipc[0], ipc[1], lnc[0], lnc[1], omen_gen.ctree(tree), common.cbool(bool(fg)))


MS_HEADER = ["From Coq Require Import List Bool NArith ZArith Floats.",
             "From Pcfg Require Import ProbAlg F64 Next NextSpec Corr Expand ExpandCorr OmenSpec Omen OmenCorr MarkovSession MarkovSessionCorr.",
             "From PcfgGen Require Import Consts_gen.", "Import ListNotations.", "Open Scope nat_scope."]


def _obs(vm, q):
    """(base-structure line, (pt, base_prob, prob)); a line that could not be followed is written as 9999
    (no item of the model has that tag, so the case fails rather than passing by accident)"""
    import impl_next
    return "(%d%%nat, %s)" % (9999 if q[3] is None else q[3], impl_next.coq_obs(vm, {"pt": q[0], "prob": q[1], "base_prob": q[2]}))


def _obs_list(vm, qs):
    return common.clist([_obs(vm, q) for q in qs]) if qs else "(@nil tobs)"


def _strs(l):
    return common.clist([common.cstr(x) for x in l]) if l else "(@nil str)"


def session_shard(ms, cases=None):
    """Coq source: the combined session model against every recorded cut of one ruleset (or against the given ones of them)."""
    import impl_next
    U, om = ms["U"], ms["om"]
    M = U["model"]
    vm = M["vm"]
    ustream = U["stream"]
    uorder = [q for q in U["pops"] if q is not None]
    chars = set()
    for row in M["terms"]:
        for _, vals in row:
            for v in vals:
                chars.update(v)
    up = [(ch, ch.upper()) for ch in sorted(chars) if ch.upper() != ch]
    src = list(MS_HEADER)
    src.append("Definition up : list (N * str) := %s." %
               (common.clist(["(%d%%N, %s)" % (ord(ch), common.cstr(u)) for ch, u in up]) if up else "(@nil (N * str))"))
    terms = common.clist([common.clist(["(%d%%nat, %s)" % (cat, _strs(vals)) for cat, vals in row]) if row
                          else "(@nil (nat * list str))" for row in M["terms"]])
    src.append("Definition ustream : list str := %s." % _strs(ustream))
    src.append("Open Scope float_scope.")
    src.append("Definition rs0 : ruleset F64 := %s." % impl_next.coq_rs(M["table"], M["bases"]))
    src.append("Definition uorder : list tobs := %s." % _obs_list(vm, uorder))
    names = {}
    defs = []

    def named(prefix, typ, lit):
        if lit not in names:
            names[lit] = "%s_%d" % (prefix, len(names))
            defs.append("Definition %s : %s := %s." % (names[lit], typ, lit))
        return names[lit]
    rows = []
    for c in (ms["cases"] if cases is None else cases):
        o1 = c["order1"]
        order1 = "(firstn %d%%nat uorder)" % len(o1) if o1 == uorder[:len(o1)] else named("o1", "list tobs", _obs_list(vm, o1))
        s1 = c["out1"]
        out1 = "(firstn %d%%nat ustream)" % len(s1) if s1 == ustream[:len(s1)] else named("s1", "list str", _strs(s1))
        if c["file"] is None:
            f = "None"
        else:
            mp, num, st = c["file"]
            f = "(Some ((%s)%%float, %d%%nat, %s))" % (common.cfloat(mp), num, coq_state(st))
        order2 = named("o2", "list tobs", _obs_list(vm, c["order2"]))
        rest, tail = c["out2"][:c["rest"]], c["out2"][c["rest"]:]
        if rest == ustream[c["cut"] + 1:c["b"]]:
            rest_e = "(firstn %d%%nat (skipn %d%%nat ustream))" % (len(rest), c["cut"] + 1)
        else:
            rest_e = _strs(rest)
        out2 = "(%s ++ %s)" % (rest_e, named("t2", "list str", _strs(tail)))
        rows.append("mk_ms_case %d%%nat %d%%nat %s %s %s %s %s %d%%nat" % (c["k"], c["j"], order1, out1, f, order2, out2, c["rest"]))
    src += defs
    src.append("Close Scope float_scope.")
    src.append("Definition g : sgram F64 := mk_g rs0 %s %s." % (terms, omen_gen.coq_model(om)))
    src.append("Definition cases : list ms_case := [\n%s]." % ";\n".join(rows))
    src.append("Eval vm_compute in (check_ms_all up g cases).")
    return "\n".join(src)


def coq_resume_case(c):
    st = coq_state(c["state"])
    return "(%s, (%d)%%Z, %d, %s, %s)" % (omen_gen.coq_model(c["om"]), c["T"], c["j"], st, omen_gen.cstrs(c["rest"]))


def run(ctx):
    sc = common.scratch()
    nrs = ctx.scale(42, 360)
    max_cuts = ctx.scale(14, 60)
    dist = Counter()
    vio, cases, samples = [], [], []
    two_cases = []
    ms_rulesets = []
    evaluations = nontrivial = 0
    import time
    t_explore = time.time()
    for i in range(nrs):
        variant = variant_of(i)
        rs, om, buckets = gen_case(ctx.rng, i, variant)
        before = dist["rulesets"]
        v, e, n = explore(ctx, rs, om, buckets, sc, dist, cases, samples, max_cuts, two_cases, ms_rulesets, lower=variant["all_lower"])
        if dist["rulesets"] > before:
            dist["rulesets_encoding_" + variant["encoding"]] += 1
            dist["rulesets_alphabet_" + variant["kind"]] += 1
            dist["rulesets_all_lower"] += 1 if variant["all_lower"] else 0
            dist["rulesets_alphabet_with_upper_case"] += 1 if any(c != c.lower() for c in om["alphabet"]) else 0
        vio += v
        evaluations += e
        nontrivial += n
    # ---- named sessions interleaved through the real pcfg_guesser.main()
    t_named = time.time()
    v, e, n = named_sessions(ctx, dist, samples)
    dist["named_wall_s"] = round(time.time() - t_named, 1)
    dist["explore_wall_s"] = round(t_named - t_explore, 1)
    vio += v
    evaluations += e
    nontrivial += n
    # ---- correspondence: pickled state = model state; continuation with an empty cache = what the resumed run emitted
    nsh = min(len(cases), common.NCPU) or 1
    shards = []
    for k in range(nsh):
        chunk = cases[k::nsh]
        src = list(HEADER)
        src.append("Definition cases : list (omen * Z * nat * saved * list ostr) := [")
        src.append(";\n".join(coq_resume_case(c) for c in chunk))
        src.append("].")
        src.append("Eval vm_compute in (ofailing (fun c => match c with (G, T, j, st, rest) => check_resume_case G T j st rest end) cases).")
        shards.append(("s%04d" % k, "\n".join(src)))
    # translator tie: the generated Optimizer / GuessStructure / MarkovCracker code = the model (names the broken lemma)
    import omen_gen_gen_tie
    corr = list(omen_gen_gen_tie.obligations())
    for name, idx, log in common.run_case_shards("C15", shards):
        k = int(name[1:])
        if idx is None:
            corr.append(("omen-resume:" + name, False, log[-800:]))
        elif idx:
            c = cases[k::nsh][idx[0]]
            corr.append(("omen-resume:" + name, False, "saved state or continuation differs between model and implementation for cases %s; "
                         "first: level %d cut %d state %r" % (idx, c["T"], c["j"], c["state"])))
        else:
            corr.append(("omen-resume:" + name, True, ""))
    if two_cases:
        nsh2 = min(len(two_cases), common.NCPU)
        shards2 = []
        for k in range(nsh2):
            chunk = two_cases[k::nsh2]
            src = list(HEADER)
            src.append("Definition cases : list (omen * saved * bool * saved * option (list ostr)) := [")
            src.append(";\n".join("(%s, %s, %s, %s, %s)" % (omen_gen.coq_model(c["om"]), coq_state(c["state1"]), common.cbool(c["inside"]),
                                                             coq_state(c["state2"]),
                                                             "None" if c["third"] is None else "(Some %s)" % omen_gen.cstrs(c["third"]))
                                  for c in chunk))
            src.append("].")
            src.append("Eval vm_compute in (ofailing (fun c => match c with (G, s1, ins, s2, third) => check_two_cycle G s1 ins s2 third end) cases).")
            shards2.append(("t%04d" % k, "\n".join(src)))
        for name, idx, log in common.run_case_shards("C15b", shards2):
            k = int(name[1:])
            if idx is None:
                corr.append(("session-two-cycle:" + name, False, log[-800:]))
            elif idx:
                c = two_cases[k::nsh2][idx[0]]
                corr.append(("session-two-cycle:" + name, False, "session-level model (omen_guess_number %s removed) and implementation "
                             "disagree on what the third run restores, cases %s; first: %s"
                             % ("is" if consts()["omen_number_cleared"] else "is never", idx, json.dumps(c["replay"])[:500])))
            else:
                corr.append(("session-two-cycle:" + name, True, ""))
    # ---- correspondence: the combined session model (queue + level + save + restore) on the same histories
    # (one shard per ruleset; the model replays the whole session per cut, quadratic in the number of pre-terminals of the run:
    # the cuts of a ruleset with a very long run are spread over several shards that Coq checks side by side - same cuts, same checks)
    ms_shards, ms_of = [], {}
    for i, ms in enumerate(ms_rulesets):
        if not ms["cases"]:
            continue
        pops = sum(1 for q in ms["U"]["pops"] if q is not None)
        per = max(1, int(6.0e5 / max(1, pops * pops)))          # about 20 s of vm_compute per shard (18 s per cut at 730 pops)
        chunks = [ms["cases"][k:k + per] for k in range(0, len(ms["cases"]), per)]
        for ci, chunk in enumerate(chunks):
            name = "m%04d" % i + ("" if len(chunks) == 1 else "_%02d" % ci)
            ms_shards.append((name, session_shard(ms, chunk)))
            ms_of[name] = (ms, chunk)
        if len(chunks) > 1:
            dist["coq_session_rulesets_split_over_shards"] += 1
    if ms_shards:
        for name, idx, log in common.run_case_shards("C15c", ms_shards):
            ms, chunk = ms_of[name]
            if idx is None:
                corr.append(("session:" + name, False, log[-1200:]))
            elif idx:
                c = chunk[idx[0]]
                corr.append(("session:" + name, False, "combined session model (MarkovSession.v) and the real sessions differ on cuts %s of "
                             "ruleset %s; first: %d pre-terminals before the level, quit after its guess %d (%s): interrupted output / "
                             "saved max_probability, omen_guess_number, .omn / resumed output or pop sequence; replay %s"
                             % (idx, ms["name"], c["k"], c["j"], c["kind"], json.dumps(c["replay"])[:300])))
            else:
                corr.append(("session:" + name, True, ""))
    dist["coq_session_cases"] = sum(len(ms["cases"]) for ms in ms_rulesets)
    dist["coq_session_cases_tied"] = sum(1 for ms in ms_rulesets for c in ms["cases"] if c["kind"] == "tied")
    dist["coq_session_cases_last"] = sum(1 for ms in ms_rulesets for c in ms["cases"] if c["kind"] == "last")
    dist["coq_two_cycle_cases"] = len(two_cases)
    dist["coq_cases"] = len(cases)
    rule = ("generated rulesets with an 'M' base structure over a generated OMEN model (ngram 2-4) and 1-3 Markov levels of 1..60 "
            "strings; per ruleset index a fixed variant: encoding of the rule files (utf-8, iso-8859-1, cp1251, utf-16; terminals limited "
            "to what the encoding has), kind of OMEN alphabet (lower-case only / both cases, mostly one letter in both / caseless and "
            "special letters; outside UTF-8 with characters inside AND outside ASCII) and whether the session is started with --all_lower "
            "(restored from the save file on resume); the reference is the uninterrupted run under the same options; "
            "the uninterrupted session, then for EVERY guess j of every such level: quit after j (should_exit set from the "
            "print_guess wrapper), new PcfgGrammar + run(load_session=True) on the written .sav/.omn; oracle: restored part = remainder "
            "of the level exactly, nothing after it lost, the level not regenerated unless tied with the saved probability; for two cuts "
            "per level a second quit (inside the remainder / outside the level) and a third run: no replay; non-trivial = the cut is "
            "strictly inside the level; distinct by (ruleset, cut list); every such cut is also run through the combined session model "
            "MarkovSession.v (interrupted output, saved max_probability / omen_guess_number / .omn, resumed output and pop sequence "
            "compared exactly, the model's queue following the implementation inside groups of equal probability); named sessions: "
            "rulesets of the same generator (Markov base structure mostly the most probable line) whose uninterrupted run through the real "
            "pcfg_guesser.main() has no two pre-terminals of equal probability, 2-3 sessions under names of one confusable family (equal "
            "up to the last 1-3 characters with and without a dot before them, extension-like suffixes .sav/.omn, several / leading / "
            "trailing dots, prefixes of each other, spaces, case, non-ASCII letters), each session quit 1-3 times at places of its own "
            "(mostly inside Markov levels) and resumed with --load, the sessions' runs interleaved; the rulesets in the same variants, "
            "the sessions of one ruleset all default / all started with --all_lower / some of each (--all_lower typed when a session is "
            "started only, each session judged against the uninterrupted run under ITS options); oracle: every run of a session emits "
            "exactly the next piece of the reference run (so the restored part is the remainder of ITS level), plus the single-session "
            "judge on the final resume; non-trivial = a session is resumed after ANOTHER session was interrupted inside a Markov level "
            "since its own interruption")
    # translator tie of the session-level bookkeeping (_save_session = sess_quit, the --load prologue = sess_restore)
    import session_tie
    corr.append(session_tie.obligation("session"))
    # the named-sessions stage must have had its rulesets (an uninterrupted main() that fails is not a reason to skip it)
    corr.append(("named-sessions:explored", dist.get("named_rulesets", 0) == ctx.scale(*NAMED_RULESETS) and dist.get("named_histories", 0) > 0,
                 "%d of %d rulesets with a usable uninterrupted run of pcfg_guesser.main(); last failures: %r"
                 % (dist.get("named_rulesets", 0), ctx.scale(*NAMED_RULESETS), REF_ERRORS[-3:])))
    # the variants must have been explored where they matter: quits inside Markov levels of rulesets outside UTF-8 right after
    # a guess with a non-ASCII character (and after one without), --all_lower sessions quit while strings with upper-case letters
    # remain in the level; in both stages
    nu = [e for e in set(ENC_CYCLE) if not is_utf8_like(e)]
    counts = {"in-process, non-UTF-8 ruleset, quit after a non-ASCII guess": sum(dist.get("cuts_after_non_ascii_guess_" + e, 0) for e in nu),
              "in-process, non-UTF-8 ruleset, quit after an ASCII guess": sum(dist.get("cuts_after_ascii_guess_" + e, 0) for e in nu),
              "in-process, --all_lower, upper-case strings remaining": dist.get("cuts_all_lower_upper_case_strings_remaining", 0),
              "main(), non-UTF-8 ruleset, quit after a non-ASCII guess": sum(dist.get("named_markov_quits_after_non_ascii_guess_" + e, 0) for e in nu),
              "main(), --all_lower, upper-case strings remaining": dist.get("named_markov_quits_all_lower_upper_case_strings_remaining", 0)}
    corr.append(("session-variants:explored", all(c > 0 for c in counts.values()), json.dumps(counts)))
    return {"evaluations": evaluations, "distinct_nontrivial": nontrivial, "rule": rule, "samples": samples,
            "corr": corr, "violations": vio, "dist": dict(dist)}


def replay(ctx, data):
    inp = data.get("input") or {}
    if "ruleset" not in inp:
        return []
    rs = inp["ruleset"]
    om = rs["omen"]
    for k in ("ip", "ep", "cp"):
        om[k] = [tuple(x) for x in om[k]]
    for k in list(rs["files"]):
        rs["files"][k] = [tuple(x) for x in rs["files"][k]]
    for k in ("grammar", "prince", "omen_prob"):
        rs[k] = [tuple(x) for x in rs[k]]
    if inp.get("cli") == "named-sessions":
        return named_replay(inp)
    sc = common.scratch()
    rd = os.path.join(sc, "Rules", rs["name"])
    write_rules(rs, rd)
    sav = os.path.join(sc, "sess.sav")
    lower = bool(inp.get("all_lower"))
    U = run_session(rs, rd, sav, False, lower=lower)
    segs = U["segments"] + [(len(U["stream"]), None)]
    os.remove(sav)
    if "quit_after" not in inp:
        # first-cycle quit raised inside a next_guess call
        R1 = run_session(rs, rd, sav, False, quit_in_next=inp["quit_in_next"], lower=lower)
        n = len(R1["stream"])
        seg = [(i, s0, segs[i + 1][0], pt) for i, (s0, pt) in enumerate(U["segments"]) if s0 < n <= segs[i + 1][0] or (s0 == n == segs[i + 1][0])]
        seg = [x for x in seg if x[3][0][0] == "M"]
        if not seg:
            return []
        i, a, b, pt = seg[-1]
        U["level_pop_index"] = [k for k, p in enumerate(U["pops"]) if p is not None and p[0] == pt][0]
        if n != b:
            return []
        R2 = run_session(rs, rd, sav, True)
        v, _ = analyse_complete(U, b, pt, R1, R2, inp, set(U["stream"][a:b]))
        return v
    q = inp["quit_after"]
    j = q - 1
    seg = [(i, s0, segs[i + 1][0], pt) for i, (s0, pt) in enumerate(U["segments"]) if s0 <= j < segs[i + 1][0]]
    if not seg or seg[0][3][0][0] != "M":
        return []
    i, a, b, pt = seg[0]
    U["level_pop_index"] = [k for k, p in enumerate(U["pops"]) if p is not None and p[0] == pt][0]
    R1 = run_session(rs, rd, sav, False, quit_after=q, lower=lower)
    qa, qn = inp.get("then_quit_after"), inp.get("then_quit_in_next")
    if qa is None and qn is None:
        R2 = run_session(rs, rd, sav, True)
        v, _ = analyse(U, j, a, b, pt, R1, R2, inp)
        return v
    R2 = run_session(rs, rd, sav, True, quit_after=qa, quit_in_next=qn)
    R3 = run_session(rs, rd, sav, True)
    rem = b - (j + 1)
    ended = (qn == rem + 1) or (qa is not None and qa > rem)
    if ended and R2["pops"] and R2["pops"][-1] is not None and R3["restored"] is not None:
        lv = set(U["stream"][a:b])
        rp = [s0 for s0 in R3["stream"][:R3["restored"]] if s0 in lv]
        if rp:
            return [{"sig": "C15:stale-replay", "what": "third run replays %r of the level's remainder" % rp[:3], "replay": inp}]
    return []
