"""C17: PRINCE-LING emits the ruleset's words most-probable-first, up to --size.
Implementation = prince_ling.py as a subprocess (stdout and -o file), model =
Session.prince + the `next` theorems."""
import os
from concurrent.futures import ThreadPoolExecutor

import common
import impl_next
import rulesets
from props.C04 import collect, independent_product

ID = "C17"
TRUSTED = ["argparse, the OS pipe, codecs file writing", "in-process reference stream = real PcfgQueue over the Prince folder + create_guesses",
           "second tie (translator): harness/translate_expand.py (ast -> Gallina, fail closed; accepted subset and what it does not model in its docstring) and the meaning coq/theories/ExpandRt.v gives to Python subscripts, slices, `if limit:` and str methods; print_guess, MarkovCracker, int() and str.upper() of one character are parameters of the generated functions",
           "translator tie of the wordlist loop: harness/translate_session.py (ast -> Gallina, fail closed; accepted subset and what it does "
           "not model in its docstring) and the meaning coq/theories/SessionRt.v gives to `while`, break, try/except OSError and "
           "`x is None`; the queue (next) and create_guesses are operations on an abstract world, specified by queue_contract / "
           "create_guesses_contract in C17_source_create_prince_wordlist_is_model (create_guesses's contract is what "
           "C17_source_size_inside_preterminal proves of the translated create_guesses)"]
ASSUMES = ["N >= 1"]


def file_language(rs, lower):
    """The Prince language straight from the RULESET FILES (not from the loaded tables): every value of every list named by a
    line of Prince/grammar.txt, A<n> words under every mask of C<n> (as typed under --all_lower)."""
    import re
    out = []
    for struct, _ in rs["prince"]:
        toks = re.findall(r"[A-Z][0-9]+", struct)
        if len(toks) != 1 or toks[0] not in rs["files"]:
            return None
        t = toks[0]
        vals = [v for v, _ in rs["files"][t]]
        if t[0] == "A":
            masks = [m for m, _ in rs["files"].get("C" + t[1:], [])]
            if lower:
                masks = ["L" * int(t[1:])]
            if not masks:
                return None
            for w in vals:
                for m in masks:
                    out.append("".join(c if mc == "L" else c.upper() for c, mc in zip(w, m)))
        else:
            out += vals
    return out


def long_list(ctx, code, env, sc, dist):
    """A wordlist of several thousand words (more than any plausible output buffer): the file written with -o is byte for
    byte what goes to standard output, unbounded and with --size just above 4096 / 8192 / 10000 / 20000 (the list is longer than 20000 words)."""
    vio = []
    n = ctx.scale(25000, 70000)
    vals = ["%05d" % i for i in range(n)]
    groups, lines, i = [], [], 0
    while i < n:
        k = ctx.rng.choice([1, 1, 2, 3, 50])
        groups.append(vals[i:i + k])
        i += k
    for gi, gvals in enumerate(groups):
        for v in gvals:
            lines.append((v, (len(groups) - gi) * 1.0))
    tot = sum(p for _, p in lines)
    rs = {"name": "PLONG", "encoding": "utf-8", "uuid": "00000000-0000-0000-0000-000000000017",
          "files": {"D5": [(v, p / tot) for v, p in lines], "D1": [("7", 1.0)]}, "grammar": [("D1", 1.0)], "prince": [("D5", 1.0)],
          "omen": None, "omen_prob": [("1", 0.1)]}
    rulesets.write_ruleset(rs, os.path.join(code, "Rules", "PLONG"))
    base = [common.PY, "prince_ling.py", "-r", "PLONG"]
    rc, ref, err = common.run_cli(base, code, env, 300)
    ref_lines = ref.split(b"\n")[:-1]
    dist["long_list_words"] = len(ref_lines)
    if sorted(ref_lines) != sorted(v.encode() for v in vals):
        vio.append({"sig": "C17:content", "what": "the unbounded list of a %d-word Prince grammar has %d lines" % (n, len(ref_lines)),
                    "replay": {"ruleset": "long-list", "n": None, "file": False}})
    for size in (None, 4097, 8193, 10001, 20001, 10000):
        fn = os.path.join(code, "out_long_%s.txt" % size)
        rc, out, err = common.run_cli(base + ["-o", fn] + (["-s", str(size)] if size else []), code, env, 300)
        data = open(fn, "rb").read() if os.path.exists(fn) else b"<no file>"
        exp = b"".join(l + b"\n" for l in (ref_lines[:size] if size else ref_lines))
        dist["long_list_file_runs"] = dist.get("long_list_file_runs", 0) + 1
        if data != exp or out.strip():
            got_lines = data.split(b"\n")
            k = next((j for j, (a, b) in enumerate(zip(got_lines, exp.split(b"\n"))) if a != b), min(len(got_lines), len(exp.split(b"\n"))))
            vio.append({"sig": "C17:content:file", "what": "-o file of a long list (--size %s) differs from standard output: %d lines vs %d, first "
                        "difference at line %d (%r)" % (size, len(got_lines) - 1, len(exp.split(b"\n")) - 1, k, got_lines[k][:30] if k < len(got_lines) else None),
                        "replay": {"ruleset": "long-list", "n": size, "file": True}})
            break
    return vio


HIST_FLAGS = [(False, False, "Prince"), (False, True, "Prince")]
HIST_KINDS = ["flags"] * 5 + ["reweight-terminal"] * 2 + ["add-value", "remove-value", "drop-base", "reweight-base", "retrain", "same"]


def history_plan(ctx, name):
    """The steps of one history on Rules/<name> (impl_next.HistoryGen over the Prince folder: all_lower toggled on the same files,
    terminal files / Prince/grammar.txt edited in place with the uuid kept, re-trainings, plain repetitions) and one size seed per step."""
    rs = rulesets.gen_ruleset(ctx.rng, max_bases=3, max_len=3, name=name)
    hg = impl_next.HistoryGen(ctx.rng, rs, ctx.rng.choice(HIST_FLAGS), kinds=HIST_KINDS, flag_choices=HIST_FLAGS,
                              gen=lambda nm: rulesets.gen_ruleset(ctx.rng, max_bases=3, max_len=3, name=nm))
    steps, cur = [], None
    for k in range(ctx.rng.choice([3, 3, 4])):
        st = hg.first() if k == 0 else hg.next(cur)
        cur = st["ruleset"] if st["ruleset"] is not None else cur
        steps.append(st)
    return steps, [ctx.rng.randrange(10 ** 6) for _ in steps]


def history_refs(sc, steps, sizes):
    """Main thread only (the in-process loads redirect stdout): per step (files now, all_lower, reference list or None, N or None);
    the reference is the in-process stream of the same files written to a FRESH directory."""
    out, cur = [], None
    for st, seed in zip(steps, sizes):
        cur = st["ruleset"] if st.get("ruleset") is not None else cur
        lower = bool(st.get("skip_case"))
        ref = None
        try:
            g = impl_next.load_grammar(cur, sc, False, lower, "Prince")
            items, _, capped, _ = impl_next.full_stream(g, cap=500, check_heap=False)
            if not capped and items:
                ref = [x for it in items for x in collect(g, it["pt"], None)[0]]
        except Exception:       # noqa: BLE001 - rejected rulesets are not what this oracle is about
            ref = None
        out.append((cur, lower, ref, (1 + seed % len(ref)) if ref else None))
    return out


def history_cli(code, env, name, steps, refs):
    """The history itself: per step the files are (re)written into Rules/<name> of the code copy (what the code under test left
    there stays) and prince_ling.py runs on it in a fresh process, unbounded and then with --size N.  Returns the outputs."""
    h = impl_next.History(None, rules_dir=os.path.join(code, "Rules"), name=name)
    outs = []
    for st, (_, lower, ref, n) in zip(steps, refs):
        h.write(st)
        base = [common.PY, "prince_ling.py", "-r", name] + (["--all_lower"] if lower else [])
        _, full, _ = common.run_cli(base, code, env, 120)
        sized = None
        if n:
            _, sized, _ = common.run_cli(base + ["-s", str(n)], code, env, 120)
        outs.append((full, sized))
    return outs


def history_oracle(steps, refs, outs):
    from collections import Counter
    vio = []
    for k, (st, (now, lower, ref, n), (full, sized)) in enumerate(zip(steps, refs, outs)):
        replay = {"ruleset": now, "all_lower": lower, "n": None, "file": False, "history": steps[:k + 1], "step": k}
        where = "step %d (%s%s) of a history of prince_ling.py runs on one ruleset directory: " % (k, st.get("edit"), ", --all_lower" if lower else "")
        lines = full.decode(now["encoding"], "replace").split("\n")
        if lines and lines[-1] == "":
            lines = lines[:-1]
        flang = file_language(now, lower)
        if flang is not None and sorted(flang) != sorted(lines):
            cw, cr = Counter(flang), Counter(lines)
            vio.append({"sig": "C17:missing:file" if (cw - cr) else "C17:duplicated:file",
                        "what": where + "the unbounded list is not the language of the ruleset FILES as they are now, once each: missing %r, extra %r"
                                % (list((cw - cr).elements())[:3], list((cr - cw).elements())[:3]), "replay": replay})
            break
        if ref is None:
            continue
        if lines != ref:
            vio.append({"sig": "C17:order:history" if sorted(lines) == sorted(ref) else "C17:content:history",
                        "what": where + "the unbounded list (%d words) is not the list the same files give in a fresh directory (%d words)"
                                % (len(lines), len(ref)), "replay": replay})
            break
        got = sized.decode(now["encoding"], "replace").split("\n")
        if got and got[-1] == "":
            got = got[:-1]
        if got != ref[:n]:
            vio.append({"sig": "C17:overshoot" if len(got) > n else "C17:content:history",
                        "what": where + "--size %d produced %d words, not the first %d of the unbounded list" % (n, len(got), n),
                        "replay": dict(replay, n=n)})
            break
    return vio


def run(ctx):
    nrs = ctx.scale(24, 120)
    sc = common.scratch()
    code = common.copy_code_tree(common.scratch())
    env = common.subenv()
    env["PYTHONPATH"] = code
    vio, samples, jobs, refs = [], [], [], {}
    dist = {"rulesets": 0, "cli_runs": 0, "sizes_inside_group": 0, "file_runs": 0}
    nontrivial, seen = 0, set()
    r = 0
    while r < nrs:
        rs = rulesets.gen_ruleset(ctx.rng, max_bases=3, max_len=3)
        if r % 3 == 1:
            # tie-rich family: equally probable words x equally probable masks in one pre-terminal
            rs["files"]["A3"] = [("cat", 0.4), ("dog", 0.4), ("abc", 0.2)]
            rs["files"]["C3"] = [("LLL", 0.3), ("ULL", 0.3), ("UUU", 0.3), ("LLU", 0.1)]
            rs["files"]["D2"] = [("12", 0.25), ("99", 0.25), ("07", 0.25), ("00", 0.25)]
            rs["prince"] = [("A3", 0.5), ("D2", 0.3)] + [x for x in rs["prince"] if x[0] not in ("A3", "D2")][:2]
        if r % 3 == 2:
            # non-dyadic two-point lists: parents of a node tie exactly or differ by one ulp depending on how the
            # product is computed (0.6*0.4 vs 0.4*0.6 under different base probabilities)
            rs["files"]["A5"] = [("lemon", 0.6), ("grape", 0.4)]
            rs["files"]["C5"] = [("LLLLL", 0.6), ("ULLLL", 0.4)]
            others = [x for x in rs["prince"] if x[0] not in ("A5",)][:2]
            b = ctx.rng.choice([5 / 8, 5 / 9, 0.7, 1 / 3])
            rs["prince"] = sorted([("A5", b)] + [(k, (1 - b) / max(1, len(others))) for k, _ in others], key=lambda x: -x[1])
        name = "P%d" % r
        rs["name"] = name
        if r % 4 == 3:
            # a ruleset in an encoding with a byte order mark: the -o file is ONE text in that encoding (one mark at its start at most)
            rs["encoding"] = ctx.rng.choice(["utf-8-sig", "utf-16"])
            dist["bom_encodings"] = dist.get("bom_encodings", 0) + 1
        lower = ctx.rng.random() < 0.4
        try:
            g = impl_next.load_grammar(rs, sc, False, lower, "Prince")
        except Exception:
            continue
        try:
            items, _, capped, _ = impl_next.full_stream(g, cap=500, check_heap=False)
        except Exception as e:
            vio.append({"sig": "C17:raised:%s" % type(e).__name__, "what": "the queue over the Prince grammar raised %s: %s" % (type(e).__name__, e),
                        "replay": {"ruleset": rs, "all_lower": lower, "n": None, "file": False}})
            r += 1
            continue
        if capped or not items:
            continue
        per_item = [collect(g, it["pt"], None)[0] for it in items]
        probs = [it["prob"] for it in items]
        ref = [x for p in per_item for x in p]
        # independent of the `next` algorithm: every (type, value, capitalisation) of the Prince grammar exactly once
        want = []
        for pit in impl_next.product_enumeration(g):
            want += independent_product(g, pit["pt"]) or []
        if sorted(want) != sorted(ref):
            from collections import Counter
            cw, cr = Counter(want), Counter(ref)
            vio.append({"sig": "C17:missing" if (cw - cr) else "C17:duplicated",
                        "what": "unbounded wordlist is not the Prince language once each: missing %r, repeated %r"
                                % (list((cw - cr).elements())[:3], list((cr - cw).elements())[:3]),
                        "replay": {"ruleset": rs, "all_lower": lower, "n": None, "file": False}})
        flang = file_language(rs, lower)
        if flang is not None:
            dist["file_language_checks"] = dist.get("file_language_checks", 0) + 1
            if any(v[:1] == "#" or v.strip() != v for v in flang):
                dist["file_language_with_hash_or_blank_edged_words"] = dist.get("file_language_with_hash_or_blank_edged_words", 0) + 1
            if sorted(flang) != sorted(ref):
                from collections import Counter
                cw, cr = Counter(flang), Counter(ref)
                vio.append({"sig": "C17:missing:file" if (cw - cr) else "C17:duplicated:file",
                            "what": "unbounded wordlist is not the language of the ruleset FILES once each: missing %r, extra %r"
                                    % (list((cw - cr).elements())[:3], list((cr - cw).elements())[:3]),
                            "replay": {"ruleset": rs, "all_lower": lower, "n": None, "file": False}})
        rulesets.write_ruleset(rs, os.path.join(code, "Rules", name))
        refs[name] = (rs, lower, per_item, ref, probs)
        # in-process: the real wordlist loop with EVERY size 1 .. total+1 (capped)
        from lib_princeling.wordlist_generation import create_prince_wordlist
        for nsz in range(1, min(len(ref) + 2, ctx.scale(200, 800))):
            got = []
            old = g.print_guess
            g.print_guess = got.append
            try:
                common.quiet_call(create_prince_wordlist, g, nsz)
            finally:
                g.print_guess = old
            dist["inprocess_size_runs"] = dist.get("inprocess_size_runs", 0) + 1
            if got != ref[:nsz]:
                vio.append({"sig": "C17:overshoot" if len(got) > nsz else "C17:content",
                            "what": "create_prince_wordlist with size %d wrote %d words (expected the first %d of %d)" % (nsz, len(got), min(nsz, len(ref)), len(ref)),
                            "replay": {"ruleset": rs, "all_lower": lower, "n": nsz, "file": False}})
                break
        r += 1
        dist["rulesets"] += 1
        bounds, c = [], 0
        for p in per_item:
            c += len(p)
            bounds.append(c)
        ns = {1, len(ref), len(ref) + 3}
        for b in ctx.rng.sample(bounds, min(len(bounds), 3)):
            ns |= {b - 1, b, b + 1}
        c = 0
        for p in per_item:
            if len(p) >= 2:
                ns.add(c + ctx.rng.randint(1, len(p) - 1))
            c += len(p)
        jobs.append((name, lower, None, False))
        jobs.append((name, lower, None, True))
        for n in sorted(x for x in ns if x >= 1)[:ctx.scale(9, 20)]:
            jobs.append((name, lower, n, ctx.rng.random() < 0.3))

    def do(job):
        name, lower, n, tofile = job
        args = [common.PY, "prince_ling.py", "-r", name] + (["--all_lower"] if lower else []) + (["-s", str(n)] if n else [])
        fn = None
        if tofile:
            fn = os.path.join(code, "out_%s_%s.txt" % (name, n))
            args += ["-o", fn]
            if (n or 0) % 2 == 0:
                # the file already exists and is longer than what this run writes (an earlier, larger run to the same name)
                with open(fn, "wb") as f:
                    f.write(b"left-over-of-an-earlier-run\n" * 3000)
        rc, out, err = common.run_cli(args, code, env, 120)
        data = out
        if tofile:
            data = open(fn, "rb").read() if os.path.exists(fn) else b"<no file>"
            if out.strip():
                data = b"<stdout not empty with -o>" + out
        return job, data
    # histories: several prince_ling.py runs, one after the other, on the SAME ruleset directory
    import time
    plans, t0 = [], time.time()
    for i in range(ctx.scale(10, 60)):
        steps, sizes = history_plan(ctx, "PH%d" % i)
        plans.append(("PH%d" % i, steps, sizes, history_refs(sc, steps, sizes)))
    dist["history_reference_seconds"] = round(time.time() - t0, 1)
    with ThreadPoolExecutor(max_workers=common.NCPU) as ex:
        results = list(ex.map(do, jobs))
        houts = list(ex.map(lambda pl: history_cli(code, env, pl[0], pl[1], pl[3]), plans))
    for (hname, steps, sizes, hrefs), outs in zip(plans, houts):
        v = history_oracle(steps, hrefs, outs)
        for x in v:
            x["replay"]["sizes"] = sizes
        vio += v
        dist["histories"] = dist.get("histories", 0) + 1
        dist["history_cli_runs"] = dist.get("history_cli_runs", 0) + sum(1 + (o[1] is not None) for o in outs)
        dist.setdefault("history_edits", {})
        for st in steps:
            dist["history_edits"][st["edit"]] = dist["history_edits"].get(st["edit"], 0) + 1
    cases = {}
    for (name, lower, n, tofile), data in results:
        dist["cli_runs"] += 1
        dist["file_runs"] += tofile
        rs, _, per_item, ref, probs = refs[name]
        replay = {"ruleset": rs, "all_lower": lower, "n": n, "file": tofile}
        lines = data.decode(rs["encoding"] if tofile else "utf-8", "replace").split("\n")
        if lines and lines[-1] == "":
            lines = lines[:-1]
        exp = ref if not n else ref[:n]
        if lines != exp:
            if n and len(lines) > n:
                sig, what = "C17:overshoot", "--size %d produced %d words" % (n, len(lines))
            elif lines and lines[0] == "" and lines[1:] == exp:
                sig, what = "C17:stdout-noise", "first output line is empty"
            elif sorted(lines) == sorted(exp):
                sig, what = "C17:order", "same words, different order than the probability order"
            else:
                sig, what = "C17:content", "output is not the first N words of the unbounded list (%d vs %d lines)" % (len(lines), len(exp))
            if tofile:
                sig += ":file"
            vio.append({"sig": sig, "what": what, "replay": replay})
        if n:
            c = 0
            for p in per_item:
                if c < n < c + len(p):
                    dist["sizes_inside_group"] += 1
                    if (name, n) not in seen:
                        seen.add((name, n))
                        nontrivial += 1
                c += len(p)
            cases.setdefault(name, []).append((n, len(lines), lines == ref[:len(lines)]))
        if len(samples) < 3 and n:
            samples.append({"ruleset": name, "size": n, "all_lower": lower, "to_file": tofile, "got": len(lines), "first": lines[:4]})
    vio += long_list(ctx, code, env, sc, dist)
    # unbounded list: probabilities of the groups non-increasing (direct oracle on the reference used above)
    for name, (rs, lower, per_item, ref, probs) in refs.items():
        if any(probs[i] > probs[i - 1] for i in range(1, len(probs))):
            vio.append({"sig": "C17:prob-order", "what": "pre-terminal probabilities of the Prince run are not non-increasing", "replay": {"ruleset": rs}})
    shards = []
    for name, cs in cases.items():
        per_item = refs[name][2]
        src = ["From Coq Require Import List Arith Bool.", "From Pcfg Require Import Session SessionCorr.",
               "From PcfgGen Require Import Consts_gen.", "Import ListNotations.",
               "Definition pts : list (list nat) := map guesses (mk_pts %s 0 0)." %
               common.clist(["(false, %d%%nat)" % len(p) for p in per_item]),
               "Definition runs : list (nat * nat * bool) := %s." % common.clist(["(%d%%nat, %d%%nat, %s)" % c for c in
                                                                                   [(n, got, common.cbool(okp)) for n, got, okp in cs]]),
               "Eval vm_compute in (failing (fun r => match r with (n, got, okp) => okp && nat_list_eqb (prince prince_passes_remaining_size pts 0 (Some n)) (seq 0 got) end) runs)."]
        shards.append((name, "\n".join(src)))
    corr = []
    for name, idx, log in common.run_case_shards("C17", shards):
        if idx is None:
            corr.append(("size:" + name, False, log[-800:]))
        elif idx:
            corr.append(("size:" + name, False, "model prince and prince_ling.py --size differ for runs %s of %s" % (idx[:10], name)))
        else:
            corr.append(("size:" + name, True, ""))
    rule = ("generated rulesets (Prince/grammar.txt over all their labels, ties), prince_ling.py as a subprocess with and without -o (every second -o file exists already and is longer) and "
            "--all_lower, unbounded and with --size N for N = 1, total, total+3, b-1/b/b+1 around group boundaries and strictly inside "
            "groups of equally probable words; output compared byte-wise with the in-process reference; non-trivial = N strictly inside a "
            "group; distinct by (ruleset, N); plus one list of 25000+ words to stdout and to -o files (unbounded, --size 4096/4097/8193/10000/10001/20001); the language also recomputed from the ruleset files; "
            "plus histories of 3-4 pairs of prince_ling.py runs (unbounded, --size N; fresh processes) on ONE ruleset directory: --all_lower toggled on "
            "the same files, terminal files / Prince/grammar.txt edited in place with the uuid kept, re-trainings; after every step the output = the "
            "language of the files as they are then = the list the same files give from a fresh directory")
    # second tie to the source (translator): name the broken equality if the build lost ExpandGenProofs
    import expand_tie
    corr.append(expand_tie.obligation())
    import kernel_tie
    corr.append(kernel_tie.obligation())
    # translator tie of the wordlist loop itself (create_prince_wordlist = Session.prince)
    import session_tie
    corr.append(session_tie.obligation("prince"))
    return {"evaluations": dist["cli_runs"], "distinct_nontrivial": nontrivial, "rule": rule, "samples": samples,
            "corr": corr, "violations": vio, "dist": dist}


def replay(ctx, data):
    inp = data.get("input") or {}
    if "ruleset" not in inp:
        return []
    rs = inp["ruleset"]
    code = common.copy_code_tree(common.scratch())
    env = common.subenv()
    env["PYTHONPATH"] = code
    if rs == "long-list":
        return long_list(ctx, code, env, common.scratch(), {})
    if inp.get("history"):
        steps = inp["history"]
        sizes = inp.get("sizes") or [0] * len(steps)
        refs = history_refs(common.scratch(), steps, sizes)
        return history_oracle(steps, refs, history_cli(code, env, rs["name"], steps, refs))
    rulesets.write_ruleset(rs, os.path.join(code, "Rules", rs["name"]))
    base = [common.PY, "prince_ling.py", "-r", rs["name"]] + (["--all_lower"] if inp.get("all_lower") else [])
    _, full, _ = common.run_cli(base, code, env, 120)
    n = inp.get("n")
    _, got, _ = common.run_cli(base + (["-s", str(n)] if n else []), code, env, 120)
    fl, gl = full.split(b"\n")[:-1], got.split(b"\n")[:-1]
    if inp.get("file"):
        # the same run with -o: the file, read as ONE text in the ruleset's encoding, is what went to standard output
        fn = os.path.join(code, "replay_out.txt")
        _, out2, _ = common.run_cli(base + (["-s", str(n)] if n else []) + ["-o", fn], code, env, 120)
        data = open(fn, "rb").read() if os.path.exists(fn) else b"<no file>"
        flines = data.decode(rs.get("encoding", "utf-8"), "replace").split("\n")[:-1]
        if out2.strip() or flines != [x.decode("utf-8", "replace") for x in gl]:
            return [{"sig": "C17:content:file", "what": "-o file (%d lines) differs from standard output (%d lines)" % (len(flines), len(gl)),
                     "replay": inp}]
    flang = file_language(rs, bool(inp.get("all_lower")))
    if not n and flang is not None and sorted(v.encode("utf-8") for v in flang) != sorted(fl):
        return [{"sig": "C17:missing:file", "what": "the unbounded list (%d words) is not the language of the ruleset files (%d words) once each"
                 % (len(fl), len(flang)), "replay": inp}]
    if n and len(gl) > n:
        return [{"sig": "C17:overshoot", "what": "--size %d produced %d words" % (n, len(gl)), "replay": inp}]
    if gl != (fl[:n] if n else fl):
        return [{"sig": "C17:content", "what": "not the first N words", "replay": inp}]
    return []
