"""C10: the OMEN generator enumerates each level exactly, independently of the
shared lookup cache.

Implementation = input_file_io.load_rules + MarkovCracker/GuessStructure/
Optimizer of /repo's working tree, run in-process on generated OMEN
directories; model = Omen.v (enumerate) evaluated by coqc on the same files;
oracle = an independent brute-force enumerator of {s | level(s) = T}."""
import json
from collections import Counter

import common
import omen_gen
import omen_history
import unicode_pool

ID = "C10"
TRUSTED = ["directories with a history: harness/omen_history.py (second / third model written INTO a directory the real loader "
           "has already been run on; loader in the same process and in a new interpreter, harness/omen_child.py)",
           "CPython dict/list semantics of the loaded grammar (exercised: the loaded tables are compared with "
           "OmenSpec.ip_at/cp_at/ln_at on every generated directory)",
           "harness/omen_gen.brute_levels (independent enumerator used as oracle)",
           "translator tie: harness/translate_omen_gen.py (the reading it gives its accepted Python subset: objects as "
           "records, the one shared Optimizer threaded, list value semantics under the aliasing rules it enforces) and "
           "the runtime coq/theories/OmenGenRt.v (Python ints, subscripts, dicts, exceptions, fuel)"]
import loader2_tie as _loader2_tie
TRUSTED = TRUSTED + [_loader2_tie.TRUSTED]
ASSUMES = ["cache_ok c: every value in the memo table is the first completion for its key -- true of the empty table and "
           "preserved by every call (C10_fill_is_first, C10_exact return a sound table), so it holds for every history",
           "mc_starts = Some _ (the constructor does not raise): implied by first_below_max G, i.e. some IP and some length "
           "below max_level (C10_first_below_max_constructs); C10_refuted_first_object is the witness otherwise (R17)",
           "wf_tables G for C10_set / C10_NoDup only (no n-gram listed twice, IP strings have ngram-1 characters, CP strings "
           "ngram, levels <= max_level); evaluated as wf_tablesb on every generated model (C10_wf_tablesb_sound)",
           "omen_first_object_extra <= 1 (side condition on the extracted constant, Props/C10.v)"]

def consts():
    import consts.omen_gen as cg
    return cg.extract()


def pick_levels(rng, buckets, nmax):
    mx = max(buckets) if buckets else 0
    Ts = list(range(0, min(mx, 12) + 1))
    above = [t for t in sorted(buckets) if t > 12]
    rng.shuffle(above)
    Ts += above[:3]
    Ts.append(mx + 1 + rng.randint(0, 2))          # an empty level
    return Ts[:nmax] if len(Ts) > nmax else Ts


def needs_backtrack(out):
    """some consecutive guesses of one length differ before the last character"""
    for a, b in zip(out, out[1:]):
        if len(a) == len(b) and a[:-1] != b[:-1] and len(a) >= 2:
            return True
    return False


class CountingOptimizer:
    """the real Optimizer with lookups counted (hits on entries)"""

    def __init__(self, max_length):
        self.opt = omen_gen.new_optimizer(max_length)
        self.hits = 0
        real = self.opt.lookup

        def lookup(ip, length, lvl):
            f, r = real(ip, length, lvl)
            if f:
                self.hits += 1
            return f, r
        self.opt.lookup = lookup


def explore_model(ctx, om, sc, C, py_cap, dist):
    """Run one model through the implementation.  Returns (case or None, violations, info)."""
    vio = []
    grammar = omen_gen.load_model(om, sc)
    if grammar["max_level"] != C["omen_max_level"]:
        raise RuntimeError("max_level of the loaded grammar differs from the extracted constant")
    buckets = omen_gen.brute_levels(om)
    Ts = pick_levels(ctx.rng, buckets, ctx.scale(16, 24))
    ml = C["omen_optimizer_max_length"]
    fresh = {}
    raised = False
    for T in Ts:
        out, st = omen_gen.run_level(grammar, T, omen_gen.new_optimizer(ml), cap=py_cap)
        if st == "raised":
            raised = True
            break
        fresh[T] = (out, st)
    info = {"levels": [], "raised": raised, "nontrivial": set()}
    if raised:
        dist["constructor_raised"] += 1
        have = sorted(t for t in buckets if sum(buckets[t].values()))
        if have:
            T = have[0]
            vio.append({"sig": "C10:first-object-raises",
                        "what": "MarkovCracker(grammar, %d) raises in _find_first_object although %d string(s) have level %d "
                                "(e.g. %r): every IP or every length sits at level %d, which range(0,max_level) never scans"
                                % (T, sum(buckets[T].values()), T, next(iter(buckets[T])), C["omen_max_level"]),
                        "replay": {"om": om, "T": T}})
        return {"om": om, "grammar": grammar, "raised": True, "levels": [], "entries": None}, vio, info
    # oracle on the fresh runs
    for T in Ts:
        out, st = fresh[T]
        dist["levels_run"] += 1
        if st.startswith("error"):
            vio.append({"sig": "C10:next-guess-raises", "what": "level %d: next_guess raised %s after %d guesses" % (T, st[6:], len(out)),
                        "replay": {"om": om, "T": T}})
            continue
        if st != "done":
            dist["levels_cut_" + st] += 1
            want = buckets.get(T, Counter())
            got = Counter(out)
            if any(c > 1 for c in got.values()) or (got - want):
                vio.append({"sig": "C10:level-set:extra", "what": "level %d: emitted strings not of that level or repeated, e.g. %r"
                            % (T, list((got - want))[:2] or [s for s, c in got.items() if c > 1][:2]), "replay": {"om": om, "T": T}})
            continue
        want = buckets.get(T, Counter())
        got = Counter(out)
        dups = [s for s, c in got.items() if c > 1]
        if dups:
            vio.append({"sig": "C10:duplicate", "what": "level %d: %r emitted %d times" % (T, dups[0], got[dups[0]]),
                        "replay": {"om": om, "T": T}})
        if got != want:
            miss, extra = want - got, got - want
            kind = "missing" if miss else "extra"
            vio.append({"sig": "C10:level-set:" + kind,
                        "what": "level %d: generator emitted %d strings, %d have that level; missing e.g. %r, extra e.g. %r"
                                % (T, len(out), sum(want.values()), list(miss)[:2], list(extra)[:2]),
                        "replay": {"om": om, "T": T}})
        dist["strings"] += len(out)
        if needs_backtrack(out):
            info["nontrivial"].add(T)
    # one Optimizer shared by all levels: some partial runs first, then every level in random order, one level twice
    co = CountingOptimizer(ml)
    order = list(Ts)
    ctx.rng.shuffle(order)
    if order:
        order.append(ctx.rng.choice(order))
    partial = []
    nonempty = [T for T in Ts if len(fresh[T][0]) >= 2]
    for T in ctx.rng.sample(nonempty, min(len(nonempty), 2)):
        partial.append((T, ctx.rng.randint(1, min(len(fresh[T][0]) - 1, 40))))
    shared_levels = []
    for T, n in partial:
        f0 = omen_gen.FILL_CALLS[0]
        out, st = omen_gen.run_level(grammar, T, co.opt, cap=n)
        shared_levels.append((T, out, False, omen_gen.FILL_CALLS[0] - f0))
        if out != fresh[T][0][:n]:
            vio.append({"sig": "C10:cache-dependence", "what": "level %d: first %d guesses differ between a shared and a new Optimizer" % (T, n),
                        "replay": {"om": om, "T": T, "history": [p[0] for p in partial]}})
    hist = [p[0] for p in partial]
    for T in order:
        h0 = co.hits
        f0 = omen_gen.FILL_CALLS[0]
        out, st = omen_gen.run_level(grammar, T, co.opt, cap=py_cap)
        dist["shared_runs"] += 1
        if (out, st) != fresh[T]:
            k = next((i for i, (a, b) in enumerate(zip(out, fresh[T][0])) if a != b), min(len(out), len(fresh[T][0])))
            vio.append({"sig": "C10:cache-dependence",
                        "what": "level %d after history %r on one Optimizer: output differs from a new Optimizer at position %d "
                                "(%d vs %d guesses)" % (T, hist, k, len(out), len(fresh[T][0])),
                        "replay": {"om": om, "T": T, "history": list(hist)}})
        if co.hits > h0 and hist:
            info["nontrivial"].add(T)
            dist["levels_with_memo_hits"] += 1
        hist.append(T)
        if not st.startswith("error"):
            shared_levels.append((T, out, st == "done", omen_gen.FILL_CALLS[0] - f0))
    info["levels"] = Ts
    entries = omen_gen.optimizer_entries(co.opt)
    dist["optimizer_entries"] += len(entries)
    return {"om": om, "grammar": grammar, "raised": False, "levels": shared_levels, "entries": entries}, vio, info


def coq_case(case, coq_cap, model_cap, dist, call_cap):
    """Gallina literal of one case, levels cut to the Coq budget (strings and
    search work measured as calls of _fill_out_parse_tree)."""
    ip, ln, cp = omen_gen.loaded_tables(case["grammar"])
    lv = []
    total = 0
    work = 0
    skipped_any = False
    for T, out, complete, calls in case["levels"]:
        work += calls
        if total >= model_cap or work > call_cap:
            dist["coq_levels_skipped"] += 1
            skipped_any = True
            total = max(total, model_cap)      # nothing after a skipped level: Coq replays a prefix of the history
            continue
        if len(out) > coq_cap:
            out, complete = out[:coq_cap], False
            dist["coq_levels_prefix_only"] += 1
        total += len(out) + 5
        lv.append("((%d)%%Z, %s, %s)" % (T, omen_gen.cstrs(out), common.cbool(complete)))
    skipped = skipped_any or total >= model_cap
    check_cache = (not case["raised"]) and (not skipped) and case["entries"] is not None and len(case["entries"]) <= 1200
    # the cache comparison is only meaningful when Coq replays every call of the history
    if any(len(o) > coq_cap for _, o, _, _ in case["levels"]):
        check_cache = False
    dist["coq_cache_compared"] += bool(check_cache)
    return "(mk_case %s\n %s\n %s\n %s\n %s\n %s\n %s\n %s)" % (
        omen_gen.coq_model(case["om"]), ip, ln, cp, common.cbool(case["raised"]),
        ("[" + ";\n  ".join(lv) + "]") if lv else "(@nil (Z * list (list N) * bool))",
        common.cbool(check_cache), omen_gen.centries(case["entries"] if check_cache else []))


def long_session(ctx, sc, C, dist):
    """What a long guessing session does: ONE Optimizer serves level after level of a model with thousands of starting
    n-grams, so that the lookup cache grows to several hundred thousand entries (whatever the cache does about its size,
    every level must still be enumerated exactly).  Oracle: the independent brute-force enumerator."""
    rng = ctx.rng
    alphabet = list("abcdefghijklmnopqrstuvwxyzABCDEFGHIJKLMNOPQRSTUVWXYZ0123456789")
    nsym = ctx.scale(56, 62)
    alphabet = alphabet[:nsym]
    ip, cp = [], []
    for a in alphabet:
        for b in alphabet:
            ip.append((rng.randint(0, 3), a + b))
            for c in rng.sample(alphabet, 2):
                cp.append((rng.randint(0, 3), a + b + c))
    om = {"ngram": 3, "alphabet": alphabet, "ip": ip, "ep": [(0, s) for _, s in ip], "cp": cp, "ln": [3, 3, 0, 1, 1, 2],
          "modes": {"ip": "long", "cp": "long", "ln": "long", "density": 2.0 / nsym, "ip_density": 1.0, "kmax": 4, "dead": 0}}
    grammar = omen_gen.load_model(om, sc)
    buckets = omen_gen.brute_levels(om)
    opt = omen_gen.new_optimizer(C["omen_optimizer_max_length"])
    vio = []
    top = max(buckets) if buckets else 0
    for T in range(0, top + 2):
        want = buckets.get(T, Counter())
        out, st = omen_gen.run_level(grammar, T, opt, cap=sum(want.values()) + 50, budget_s=60.0)
        dist["long_session_levels"] += 1
        dist["long_session_strings"] += len(out)
        got = Counter(out)
        if st != "done" or got != want:
            miss, extra = want - got, got - want
            vio.append({"sig": "C10:level-set:" + ("missing" if miss else "extra") if st == "done" else "C10:no-exhaustion",
                        "what": "long session on one Optimizer (%d starting n-grams), level %d: status %s, emitted %d strings, %d have that "
                                "level; missing e.g. %r, extra/repeated e.g. %r" % (len(ip), T, st, len(out), sum(want.values()),
                                                                                     list(miss)[:2], list(extra)[:2]),
                        "replay": {"om": om, "T": T, "history": list(range(0, T))}})
            break
    try:
        dist["long_session_optimizer_entries"] = len(omen_gen.optimizer_entries(opt))
    except Exception:
        pass
    return vio


def dir_histories(ctx, sc, C, dist):
    """For every generated history: model A written, loaded and enumerated with the real loader / generator, model B written
    INTO THE SAME DIRECTORY (same n-gram size + alphabet + encoding with other lines; only the levels edited; only one file
    edited; another n-gram size; another alphabet; sometimes a third model or back to the first), loaded again by the same
    process and by a new interpreter: every level must be the brute-force level of the files now on disk."""
    n = ctx.scale(30, 200)
    hists = [omen_history.gen_history(ctx.rng, ctx.scale(1500, 4000)) for _ in range(n)]
    vio, finals = omen_history.run_histories(hists, sc, C["omen_optimizer_max_length"], ctx.rng, ctx.scale(8, 12),
                                             ctx.scale(3000, 10000), dist)
    dist["dir_histories"] = len(hists)
    # the final in-process loads also go to Coq: model of the LAST files against what the loader built / the generator emitted
    ncoq = ctx.scale(8, 24)
    cases = [omen_history.coq_case_of(h, res) for h, res in finals[:ncoq]]
    dist["dir_history_coq_cases"] = len(cases)
    return vio, cases


HEADER = ["From Coq Require Import List NArith ZArith.", "From Pcfg Require Import OmenSpec Omen OmenCorr.",
          "From PcfgGen Require Import Consts_gen.", "Import ListNotations.", "Open Scope nat_scope."]


def run(ctx):
    C = consts()
    sc = common.scratch()
    nmodels = ctx.scale(48, 300)
    py_cap = ctx.scale(5000, 20000)
    coq_cap = ctx.scale(150, 250)
    model_cap = ctx.scale(900, 1500)
    call_cap = ctx.scale(8000, 20000)
    omen_gen.count_fill_calls()
    dist = Counter()
    vio, cases, samples = [], [], []
    seen, nontrivial, evaluations = set(), 0, 0
    forced = [{"ip_mode": "all10"}, {"ln_mode": "all10"}, {"ngram": 2, "nalpha": 2, "density": 1.0},
              {"ngram": 5, "density": 0.4}, {"ngram": 4, "cp_mode": "wide"}, {"ngram": 3, "nalpha": 6, "cp_mode": "zero", "kmax": 2}]
    def one_model(cx, om):
        nonlocal vio, evaluations, nontrivial
        dist["models_with_a_non_nfc_ngram"] += any(not unicode_pool.nfc_stable(s) for _, s in om["ip"] + om["cp"])
        key = omen_gen.model_key(om)
        case, v, info = explore_model(cx, om, sc, C, py_cap, dist)
        vio += v
        dist["models"] += 1
        dist["ngram_%d" % om["ngram"]] += 1
        dist["alphabet_%d" % len(om["alphabet"])] += 1
        dist["non_ascii"] += any(ord(c) > 127 for c in om["alphabet"])
        dist["dead_end_models"] += om["modes"]["dead"] > 0
        dist["sparse_models"] += om["modes"]["density"] < 1.0
        evaluations += len(case["levels"]) + len(info["levels"])
        if key not in seen:
            seen.add(key)
            nontrivial += len(info["nontrivial"])
        cases.append(case)
        if len(samples) < 3 and case["levels"] and any(len(o) > 3 for _, o, _, _ in case["levels"]):
            T, o, _, _ = max(case["levels"], key=lambda x: len(x[1]))
            samples.append({"ngram": om["ngram"], "alphabet": om["alphabet"], "modes": om["modes"], "level": T,
                            "emitted": len(o), "first": o[:4]})

    for i in range(nmodels):
        force = forced[i] if i < len(forced) else None
        if force is None and ctx.rng.random() < 0.85:
            # all-10 tables are a corner, not the bulk
            force = {"ip_mode": ctx.rng.choice(["low", "low", "mid", "wide", "wide", "hi", "zero", "two"]),
                     "ln_mode": ctx.rng.choice(["low", "low", "mid", "wide", "zero", "two", "hi"])}
        one_model(ctx, omen_gen.gen_model(ctx.rng, force, max_strings=ctx.scale(6000, 8000)))
    # ---- n-grams that are NOT in Unicode normal form C (harness/unicode_pool.py: base letter + combining mark, two marks in
    # non-canonical order, singletons U+212B / U+2126 / U+212A / U+037E, Hangul conjoining jamo, CJK compatibility ideographs,
    # mostly with the composed twin in the same alphabet; every 5th a control that NFC leaves alone), in utf-8 / utf-16 /
    # utf-16-le: an n-gram is `ngram` CODE POINTS of the file, whatever they would compose to.  These models are ADDED to
    # the ones above and draw from a random stream of their own (the exploration above is the same with and without them).
    import copy
    import random
    ucx = copy.copy(ctx)
    ucx.rng = random.Random("C10-non-nfc-%s" % ctx.seed)
    for j in range(ctx.scale(12, 80)):
        control = j % 5 == 4
        force = {"ip_mode": ucx.rng.choice(["low", "low", "mid", "wide", "wide", "hi", "zero", "two"]),
                 "ln_mode": ucx.rng.choice(["low", "low", "mid", "wide", "zero", "two", "hi"]),
                 "alphabet": unicode_pool.omen_alphabet(ucx.rng, control=control),
                 "ngram": ucx.rng.choice([2, 2, 3, 3, 4]), "density": ucx.rng.choice([1.0, 1.0, 0.8, 0.6])}
        encoding = ["utf-8", "utf-16", "utf-8", "utf-16-le"][j % 4]
        om = omen_gen.gen_model(ucx.rng, force, max_strings=ctx.scale(3000, 6000))
        if encoding != "utf-8":
            om["encoding"] = encoding
        dist["non_nfc_alphabets"] += not control
        dist["non_nfc_alphabets_" + encoding] += not control
        one_model(ucx, om)
    vio += long_session(ctx, sc, C, dist)
    # ---- directories with a history: a second (third) model written into a directory that was already loaded
    import time
    t_h = time.time()
    hv, hcases = dir_histories(ctx, sc, C, dist)
    dist["dir_history_stage_seconds"] = round(time.time() - t_h, 1)
    vio += hv
    evaluations += dist["dir_history_levels"]
    nontrivial += dist["dir_history_levels_discriminating"]
    cases += hcases
    # ---- correspondence
    # balanced shards: largest case first onto the least loaded shard
    nsh = min(len(cases), common.NCPU) or 1
    lits = [coq_case(c, coq_cap, model_cap, dist, call_cap) for c in cases]
    load = [0] * nsh
    members = [[] for _ in range(nsh)]
    for i in sorted(range(len(cases)), key=lambda i: -(len(lits[i]) + 40 * len(cases[i]["om"]["cp"]))):
        k = load.index(min(load))
        members[k].append(i)
        load[k] += len(lits[i]) + 40 * len(cases[i]["om"]["cp"])
    shards = []
    for k in range(nsh):
        src = list(HEADER)
        src.append("Definition cases : list omen_case := [")
        src.append(";\n".join(lits[i] for i in members[k]))
        src.append("].")
        src.append("Eval vm_compute in (ofailing check_case cases).")
        shards.append(("s%04d" % k, "\n".join(src)))
    # translator tie: the generated Optimizer / GuessStructure / MarkovCracker code = the model (names the broken lemma)
    import omen_gen_gen_tie
    corr = list(omen_gen_gen_tie.obligations())
    # ... and the reader that builds the tables the generator walks (load_rules), with the scorer's reader
    import loader2_tie
    corr += loader2_tie.obligations("C10")
    for name, idx, log in common.run_case_shards("C10", shards):
        k = int(name[1:])
        if idx is None:
            corr.append(("omen-run:" + name, False, log[-800:]))
        elif idx:
            c = cases[members[k][idx[0]]]
            corr.append(("omen-run:" + name, False, "model and implementation differ (loader tables, emitted lists per level, "
                         "shared/new cache, or Optimizer content) for cases %s; first model: %s"
                         % ([members[k][j] for j in idx], json.dumps({q: c["om"][q] for q in ("ngram", "ip", "cp", "ln")})[:700])))
        else:
            corr.append(("omen-run:" + name, True, ""))
    rule = ("random OMEN directories (ngram 2-5, 2-6 symbols incl. non-ASCII - plus 12 (thorough 80) models over an alphabet whose n-grams are not in "
            "Unicode normal form C: combining marks after their base letter, singletons, Hangul jamo, CJK compatibility ideographs, "
            "with the composed twins, utf-8 / utf-16 / utf-16-le -, dense/sparse, dead-end prefixes, level modes "
            "zero/low/mid/wide/hi/all-10 for IP, CP and LN independently), read by the real loader; every level 0..min(max,12), "
            "up to 3 higher non-empty ones and an empty one: MarkovCracker.next_guess() until None with a new Optimizer, then "
            "all levels again in random order (one twice, two partial runs first) on ONE Optimizer; oracle: multiset equality with "
            "an independent brute-force enumerator, no duplicates, exhaustion, shared = new; Coq evaluates the model on the same "
            "files (lists compared exactly, Optimizer content compared when small); one LONG session: a 3-gram model with thousands "
            "of starting n-grams, every level on one Optimizer (cache of >100k entries), against the brute-force enumerator; "
            "DIRECTORIES WITH A HISTORY: a model written, loaded and enumerated, then a second (sometimes third, or the first again) "
            "model written into the same directory without removing anything (same n-gram size/alphabet/encoding with other lines, "
            "levels edited in place, one file edited, other n-gram size, other alphabet), loaded by the same process and by a new "
            "interpreter in both orders: every level against the brute-force enumeration of the files now on disk (the last load also "
            "as a Coq case). non-trivial = the level needs a backtrack "
            "across depth or hits a memo entry stored by an earlier level, or (histories) a level of a re-written directory whose string "
            "set differs from that of the model the directory held before; distinct by (tables, level) / (history, step, level)")
    return {"evaluations": evaluations, "distinct_nontrivial": nontrivial, "rule": rule, "samples": samples,
            "corr": corr, "violations": vio, "dist": dict(dist)}


def replay(ctx, data):
    inp = data.get("input") or {}
    if "dir_history" in inp:
        return replay_history(ctx, inp)
    if "om" not in inp:
        return []
    C = consts()
    sc = common.scratch()
    om = inp["om"]
    om["ip"] = [tuple(x) for x in om["ip"]]
    om["cp"] = [tuple(x) for x in om["cp"]]
    om["ep"] = [tuple(x) for x in om.get("ep", [])]
    grammar = omen_gen.load_model(om, sc)
    buckets = omen_gen.brute_levels(om)
    T = inp["T"]
    ml = C["omen_optimizer_max_length"]
    out, st = omen_gen.run_level(grammar, T, omen_gen.new_optimizer(ml))
    want = buckets.get(T, Counter())
    vio = []
    if st == "raised":
        if any(sum(b.values()) for b in buckets.values()):
            vio.append({"sig": "C10:first-object-raises", "what": "constructor raises although strings exist", "replay": inp})
        return vio
    if Counter(out) != want:
        vio.append({"sig": "C10:level-set:" + ("missing" if want - Counter(out) else "extra"),
                    "what": "level %d: emitted %d, expected %d" % (T, len(out), sum(want.values())), "replay": inp})
    if inp.get("history"):
        opt = omen_gen.new_optimizer(ml)
        for h in inp["history"]:
            omen_gen.run_level(grammar, h, opt)
        out2, st2 = omen_gen.run_level(grammar, T, opt)
        if out2 != out:
            vio.append({"sig": "C10:cache-dependence", "what": "level %d after history %r differs" % (T, inp["history"]), "replay": inp})
    return vio


def replay_history(ctx, inp):
    """{"dir_history": [model, ...], "plan": [[loader, ...] per model], "T": level or None}: the models written one after the
    other into ONE directory, with the recorded loader sessions in between."""
    C = consts()
    steps = []
    for om in inp["dir_history"]:
        om = dict(om)
        for k in ("ip", "cp", "ep"):
            om[k] = [tuple(x) for x in om.get(k, [])]
        steps.append(om)
    plan = [list(p) for p in inp.get("plan") or []]
    while len(plan) < len(steps):
        plan.append(["same-process"])
    # the recorded sessions, then both loaders on the final state
    plan[-1] = plan[-1] + [l for l in ("same-process", "child") if l not in plan[-1]]
    h = {"steps": steps, "variants": list(inp.get("variants") or ["?"] * len(steps)), "plan": plan}
    dist = Counter()
    T = inp.get("T")
    vio, _ = omen_history.run_histories([h], common.scratch(), C["omen_optimizer_max_length"], ctx.rng, 12, 200000, dist,
                                        levels=None if T is None else [T])
    return [dict(v, replay=inp) for v in vio]
