"""C11: trainer, scorer and guesser agree on every string's OMEN level.

Implementation: the real trainer objects (AlphabetGenerator, AlphabetLookup,
apply_smoothing, find_omen_level, calc_omen_keyspace, save_omen_rules_to_disk)
driven in-process as run_trainer.py drives them; the real OmenScorer on the
written directory; the real guesser loader (load_rules) + MarkovCracker per
target level.  Model: OmenLevel.v (trainer_level, writers, scorer readers +
scorer_level, load_g into OmenSpec's record).

Stage "full" (harness/omen_full.py): rulesets trained by the real run_trainer on
lists that mix ordinary passwords with e-mail / web site looking strings; the
level the scorer REPORTS is the 4th field of PCFGPasswordScorer.parse (object
built as password_scorer.py builds it) and the 4th column password_scorer.py
prints; both are compared with the trainer's level, with the level at which the
MarkovCracker emits the string, and with scorer_level of the model."""
import json
import os
import time

import common
import omen_level as ol
import omen_full as of

ID = "C11"
TRUSTED = [
    "files are modelled as line lists (level, string) plus the framing condition under which a reader obtains them "
    "(no TAB / line end of THAT reader inside a string, codec = the writer's); str(int)/int() and the codecs themselves are "
    "exercised by the correspondence (real writer -> real readers, utf-8 / latin-1 / cp1251), not proved",
    "the line ends of the guesser's reader are probed from the running interpreter (str.splitlines), check_valid's rejected "
    "characters by calling it; the way OmenScorer opens its files is read from the source by ast (harness/consts/omen_level.py)",
    "math.log and math.floor of smoothing._calc_level are oracles (parameters lg, fl of the model and of the translated "
    "functions): nothing is assumed about them, the clamp to 0..10 is proved for every choice",
    "harness/translate_omen_trainer.py: fail-closed ast translator of smoothing.py (_calc_level, smooth_grammar, "
    "smooth_length), AlphabetLookup (__init__, is_in_alphabet, parse, apply_smoothing), omen_file_output.py "
    "(_save_alphabet, save_omen_rules_to_disk) and AlphabetGenerator into gen/OmenTrainer*_gen.v (accepted subset and the "
    "representation of Python values in its header: mutable objects as values named by their root, sub-objects as paths, "
    "int / (level, count) leaves as a sum type, exceptions as values, the directory as a map path -> text, _save_config / "
    "str(float) as oracles) and the runtime OmenTrainer.v / OmenTrainerRt.v it targets; ttab_of (the view of a smoothed "
    "AlphabetLookup object as the table record the older translator and the models use) is part of that reading",
    "harness/translate_omen_level.py: fail-closed ast translator of find_omen_level and OmenScorer.parse into "
    "gen/OmenLevel_gen.v (accepted subset and the representation of Python values - ints as Z, strings as code points, "
    "the trainer / scorer objects as the model's records, dict subscripts as the model's lookups with None = KeyError, "
    "fuel for the while loop - in its header), and the runtime OmenRt.v it targets (Python slices / negative indices / "
    "try-except as functions)",
    "correspondence of the trainer model (OmenTrainer.v: learn_alphabet, parse_all, apply_smoothing, the texts of save_rules) "
    "against the real AlphabetGenerator / AlphabetLookup / smoothing / writer on every generated list (OmenTrainerCorr.v): "
    "math.log is instantiated by the identity and math.floor by a table -probi |-> floor(-log(probi)) that the harness computes "
    "with its own float arithmetic, so the model's binary64 probi is compared bit for bit",
    "guesser level of a string = the target level at which the real MarkovCracker emits it (levels enumerated completely "
    "under a size/time cap; undecided strings are counted, not guessed)",
    "the level the scorer reports = 4th field of PCFGPasswordScorer.parse on the object built in password_scorer.py's order "
    "(limit 0, max OMEN level 9) and the 4th tab-separated column password_scorer.py writes (-o file / stdout) when run on a "
    "scratch copy of the code tree; in the model it is scorer_level (the detectors cannot change it)",
]
import loader2_tie as _loader2_tie
TRUSTED = TRUSTED + [_loader2_tie.TRUSTED]
ASSUMES = [
    "wf_ttab: keys of the trainer's grammar are distinct, all of length ngram-1, letters distinct per key, "
    "len(ln_lookup) = max_length, min_length = ngram >= 2 (checked on every generated table)",
    "levels_le 10: every level is within 0..10 (smoothing clamps; checked on every generated table)",
    "chars_avoid: no character of the tables is TAB or a line end of the reader; follows from check_valid when the side "
    "conditions C11_source_trainer_rejects_linebreaks / C11_source_scorer_line_ends_rejected hold",
    "decoded_ok: the scorer opens IP.level / CP.level with the ruleset's encoding (side condition "
    "C11_source_scorer_uses_ruleset_encoding)",
]


def level_opt(l):
    return None if l is None or l < 0 else l


def three_way(T, sc, sc_err, G, g_err, E, cands, replay_base):
    """The property itself on what the three implementations did."""
    vio = []
    rows = []
    if sc is None:
        vio.append({"sig": "C11:scorer-load-failed:" + sc_err.split(":")[0],
                    "what": "OmenScorer cannot load the ruleset the trainer wrote (encoding %s, alphabet %r): %s"
                    % (T.cfg["encoding"], T.alphabet, sc_err[:160]), "replay": dict(replay_base, string=None)})
    if G is None:
        vio.append({"sig": "C11:guesser-load-failed", "what": "the guesser's load_rules cannot load the OMEN directory "
                    "the trainer wrote (alphabet %r): %s" % (T.alphabet, g_err), "replay": dict(replay_base, string=None)})
    for s, why in cands:
        t = level_opt(T.trainer_level(s))
        row = {"s": s, "why": why, "trainer": t, "scorer": "n/a", "guesser": "unknown"}
        if sc is not None:
            try:
                v = sc.parse(s)
            except Exception as e:
                v = "%s" % type(e).__name__
                vio.append({"sig": "C11:scorer-raises:" + v, "what": "OmenScorer.parse(%r) raises %s" % (s, v),
                            "replay": dict(replay_base, string=s)})
            if isinstance(v, int):
                row["scorer"] = level_opt(v)
                if level_opt(v) != t:
                    vio.append({"sig": "C11:trainer-scorer-differ", "what": "string %r (%s): trainer level %r, scorer level %r"
                                % (s, why, t, level_opt(v)), "replay": dict(replay_base, string=s)})
        if G is not None:
            decided, hits = ol.guesser_level(s, E)
            if len(hits) > 1:
                vio.append({"sig": "C11:guesser-two-levels", "what": "string %r emitted at levels %r" % (s, hits),
                            "replay": dict(replay_base, string=s)})
            if hits:
                row["guesser"] = hits[0]
                if hits[0] != t:
                    vio.append({"sig": "C11:trainer-guesser-differ", "what": "string %r (%s): trainer level %r, MarkovCracker "
                                "emits it at level %r" % (s, why, t, hits[0]), "replay": dict(replay_base, string=s)})
            else:
                if t is not None and t in E and E[t][1]:
                    row["guesser"] = None
                    vio.append({"sig": "C11:guesser-misses", "what": "string %r (%s): trainer level %r, but the complete "
                                "MarkovCracker output of level %r does not contain it" % (s, why, t, t),
                                "replay": dict(replay_base, string=s)})
                elif decided:
                    row["guesser"] = ("not<=", max(E) if E else -1)
        rows.append(row)
    return vio, rows


def counts_oracle(T, G, E, replay_base):
    """omen_pws_per_level.txt describes what the guesser produces: per level, the
    number of training passwords the MarkovCracker emits at that level."""
    vio = []
    if G is None:
        return vio
    saved = dict(T.file_pws_per_level())
    got = {}
    undecided = 0
    from collections import Counter
    for p, n in Counter(T.valid).items():
        decided, hits = ol.guesser_level(p, E)
        if hits:
            got[hits[0]] = got.get(hits[0], 0) + n
        elif not decided:
            undecided += n
    if undecided:
        return vio
    top = max(E) if E else -1
    for L in range(0, top + 1):
        if E[L][1] and saved.get(L, 0) != got.get(L, 0):
            vio.append({"sig": "C11:counts", "what": "omen_pws_per_level.txt says %d training passwords at level %d, the "
                        "MarkovCracker emits %d of them at that level" % (saved.get(L, 0), L, got.get(L, 0)),
                        "replay": dict(replay_base, string=None)})
            break
    return vio


def reported_oracle(T, P, p_err, E, cands, replay_base):
    """The level the scorer REPORTS (4th field of PCFGPasswordScorer.parse) against the trainer's level and against
    the level at which the real MarkovCracker emits the string."""
    vio, rows = [], []
    if P is None:
        vio.append({"sig": "C11:pcfg-scorer-load-failed", "what": "PCFGPasswordScorer cannot be built (as password_scorer.py "
                    "builds it) on the ruleset the trainer wrote: %s" % p_err, "replay": dict(replay_base, string=None)})
        return vio, rows
    for s, why in cands:
        t = level_opt(T.trainer_level(s))
        v, cat = of.report(P, s)
        if cat is None:
            vio.append({"sig": "C11:pcfg-scorer-raises:" + str(v).split(" ")[0], "what": "PCFGPasswordScorer.parse(%r): %s"
                        % (s, v), "replay": dict(replay_base, string=s)})
            continue
        r = level_opt(v)
        rows.append({"s": s, "why": why + "/reported", "trainer": t, "scorer": r, "guesser": "unknown", "category": cat})
        if r != t:
            vio.append({"sig": "C11:scorer-reports-differ:trainer:" + str(cat), "what": "string %r (%s): trainer level %r, but "
                        "PCFGPasswordScorer.parse reports OMEN level %r (category %r)" % (s, why, t, r, cat),
                        "replay": dict(replay_base, string=s)})
        decided, hits = ol.guesser_level(s, E)
        if hits and hits[0] != r:
            vio.append({"sig": "C11:scorer-reports-differ:guesser:" + str(cat), "what": "string %r (%s): the MarkovCracker "
                        "emits it at level %r, but PCFGPasswordScorer.parse reports OMEN level %r (category %r)"
                        % (s, why, hits[0], r, cat), "replay": dict(replay_base, string=s)})
        elif not hits and r is not None and r in E and E[r][1]:
            vio.append({"sig": "C11:scorer-reports-differ:guesser:" + str(cat), "what": "string %r (%s): PCFGPasswordScorer.parse "
                        "reports OMEN level %r (category %r), but the complete MarkovCracker output of level %r does not "
                        "contain it" % (s, why, r, cat, r), "replay": dict(replay_base, string=s)})
    return vio, rows


def cli_strings(rng, cands, rows, enc, n):
    """Input of one password_scorer.py run: e-mail / web site looking strings that have a level first, then the rest."""
    cat = {r["s"]: (r["category"], r["trainer"]) for r in rows}
    ok = [s for s, _ in cands if of.cli_safe(s, enc)]
    first = [s for s in ok if cat.get(s, ("", None))[0] in ("e", "w") and cat[s][1] is not None]
    rest = [s for s in ok if s not in set(first)]
    rng.shuffle(first)
    rng.shuffle(rest)
    return (first[:n // 2] + rest)[:n]


def cli_oracle(T, run, replay_base):
    """The level column password_scorer.py prints, against the trainer's level of the string printed beside it."""
    import trainer_io as tio
    vio = []
    rows, err = of.finish_cli(T, run)
    if err:
        vio.append({"sig": "C11:scorer-cli-failed", "what": "password_scorer.py (%s) on the ruleset the trainer wrote: %s"
                    % (run["cmd"], err), "replay": dict(replay_base, string=None, cli=run["strings"])})
        return vio, 0
    expected, _, _ = tio.read_passwords(run["inp"], T.cfg["encoding"], False)
    if [r[0] for r in rows] != list(expected):
        vio.append({"sig": "C11:scorer-cli-lines", "what": "password_scorer.py reports on %d strings %r..., its reader yields %d "
                    "%r..." % (len(rows), [r[0] for r in rows][:3], len(expected), list(expected)[:3]),
                    "replay": dict(replay_base, string=None, cli=run["strings"])})
    for pw, cat, lv in rows:
        try:
            v = level_opt(int(lv))
        except ValueError:
            v = "not a number: %r" % lv
        t = level_opt(T.trainer_level(pw))
        if v != t:
            vio.append({"sig": "C11:scorer-cli-reports-differ:" + cat, "what": "string %r: trainer level %r, but password_scorer.py "
                        "prints OMEN level %r (category %r)" % (pw, t, v, cat), "replay": dict(replay_base, string=pw, cli=[pw])})
    return vio, len(rows)


def explore_full(ctx, cfg, sc_dir, idx, budget, n_cli):
    """Stage "full": real run_trainer -> OmenScorer, PCFGPasswordScorer, password_scorer.py, load_rules + MarkovCracker."""
    T = of.FullTrained(cfg, os.path.join(sc_dir, "f%d" % idx))
    if not T.usable:
        return None
    replay_base = {"training": cfg}
    sc, sc_err = T.load_scorer()
    P, p_err = of.build_pcfg_scorer(T.base_dir, cfg.get("limit", 0), cfg.get("max_omen", 9))
    G, g_err = T.load_guesser()
    E, errs = {}, []
    if G is not None:
        tl = [T.trainer_level(p) for p in set(T.valid)]
        top = min(max([l for l in tl if l >= 0] + [2]) + 1, 14)
        E = ol.enumerate_sets(G, range(0, top + 1), cap=budget["cap"], seconds=budget["per_level"],
                              total_seconds=budget["per_model"])
        errs = [(L, E[L][3]) for L in E if E[L][3]]
        for L, _ in errs:
            E.pop(L)
    cands = of.candidates(ctx.rng, T, E)
    vio, rows = three_way(T, sc, sc_err, G, g_err, E, cands, replay_base)
    v2, rows2 = reported_oracle(T, P, p_err, E, cands, replay_base)
    vio += v2
    vio += counts_oracle(T, G, E, replay_base)
    if G is not None and errs:
        vio.append({"sig": "C11:guesser-raises", "what": "MarkovCracker raises at target level %d on the ruleset the trainer "
                    "wrote: %s" % errs[0], "replay": dict(replay_base, string=None)})
    run = None
    if P is not None and n_cli:
        strings = cli_strings(ctx.rng, cands, rows2, cfg["encoding"], n_cli)
        if strings:
            run = of.start_cli(T, "F%d" % idx, strings, to_file=idx % 2 == 0)
    return T, sc, G, E, cands, rows, vio, rows2, run


def pretrain(previous, d):
    """The earlier trainings of a ruleset name that is trained more than once: the real trainer onto the same directory,
    a guesser / scorer session after each."""
    for c in previous or []:
        try:
            T0 = ol.Trained(c, d)
        except ZeroDivisionError:
            continue
        if T0.usable:
            ol.session_on(T0)


def mark_retrained(vio, previous):
    """Violations found on a ruleset name that was trained before get a signature of their own."""
    if not previous:
        return vio
    for v in vio:
        if not v["sig"].startswith("C11:retrained:"):
            v["sig"] = v["sig"].replace("C11:", "C11:retrained:", 1)
            v["what"] = "ruleset name trained %d times (before: %s), the last result: %s" % (
                len(previous) + 1, "; ".join("-n %d -a %d -e %s, %d passwords" % (c["ngram"], c["alphabet_size"], c["encoding"],
                                                                                  len(c["passwords"])) for c in previous), v["what"])
    return vio


def explore(ctx, cfg, sc_dir, idx, budget, previous=None):
    pretrain(previous, os.path.join(sc_dir, "m%d" % idx))
    T = ol.Trained(cfg, os.path.join(sc_dir, "m%d" % idx))
    if not T.usable:
        return None
    replay_base = {"training": cfg}
    if previous:
        replay_base["previous"] = list(previous)
    sc, sc_err = T.load_scorer()
    G, g_err = T.load_guesser()
    E = {}
    errs = []
    if G is not None:
        tl = [T.trainer_level(p) for p in set(T.valid)]
        top = min(max([l for l in tl if l >= 0] + [2]) + 1, 22 if cfg["kind"].startswith("extreme") else 14)
        E = ol.enumerate_sets(G, range(0, top + 1), cap=budget["cap"], seconds=budget["per_level"],
                              total_seconds=budget["per_model"])
        # only a prefix of completely enumerated levels is used for "not emitted" conclusions
        errs = [(L, E[L][3]) for L in E if E[L][3]]
        for L, _ in errs:
            E.pop(L)
    cands = ol.candidates(ctx.rng, T, E)
    vio, rows = three_way(T, sc, sc_err, G, g_err, E, cands, replay_base)
    vio += counts_oracle(T, G, E, replay_base)
    if G is not None and errs:
        vio.append({"sig": "C11:guesser-raises", "what": "MarkovCracker raises at target level %d on the ruleset the trainer "
                    "wrote: %s" % errs[0], "replay": dict(replay_base, string=None)})
    return T, sc, G, E, cands, rows, mark_retrained(vio, previous)


def decoded_ok(T, consts):
    """Does the codec the scorer reads IP.level / CP.level with give back the text the trainer wrote?"""
    if consts["scorer_opens_with_ruleset_encoding"]:
        return True
    import locale
    enc = locale.getpreferredencoding(False)
    for name in ("IP.level", "CP.level"):
        b = open(os.path.join(T.omen_dir, name), "rb").read()
        try:
            if b.decode(enc) != b.decode(T.cfg["encoding"]):
                return False
        except UnicodeDecodeError:
            return False
    return True


def coq_case(T, sc, G, E, rows, consts):
    sobs = []
    for r in rows:
        scv = "None" if r["scorer"] == "n/a" else "(Some %s)" % ol.coq_level(r["scorer"])
        g = r["guesser"]
        if g == "unknown":
            gv = "GUnknown"
        elif g is None:
            gv = "GUnknown"      # an oracle hit (guesser misses); not a statement about the model
        elif isinstance(g, tuple):
            gv = "(GNotUpto %d%%nat)" % g[1] if g[1] >= 0 else "GUnknown"
        else:
            gv = "(GHit %d%%nat)" % g
        sobs.append("mk_sobs %s %s %s %s" % (common.cstr(r["s"]), ol.coq_level(r["trainer"]), scv, gv))
    levels = []
    budget = 600
    for L in sorted(E):
        lst, complete = E[L][0], E[L][1]
        if complete and len(lst) <= 150 and budget - len(lst) >= 0 and L <= 12:
            budget -= len(lst)
            levels.append("(%d%%nat, %s)" % (L, common.clist([common.cstr(s) for s in lst]) if lst else "(@nil (list N))"))
    counts = ["(%s, %d%%N)" % (ol.coq_level(k), v) for k, v in T.levels_count.items()]
    sbreaks = "guesser_linebreaks" if consts["scorer_uses_codecs_reader"] else "scorer_breaks"
    return "(mk_c11case %s\n %s\n %s\n %s\n %s\n %s\n %s\n %s\n %s\n %s %s guesser_linebreaks %s %s)" % (
        ol.coq_tables(T.tables),
        ol.coq_lines(T.file_pairs("IP.level")), ol.coq_lines(T.file_pairs("EP.level")),
        ol.coq_lines(T.file_pairs("CP.level")),
        common.clist(["%d%%nat" % int(x) for x in T.raw_lines("LN.level", "ascii")]) if T.raw_lines("LN.level", "ascii") else "(@nil nat)",
        "[" + ";\n  ".join(sobs) + "]" if sobs else "(@nil sobs)",
        "[" + ";\n  ".join(levels) + "]" if levels else "(@nil (nat * list (list N)))",
        ol.coq_pws_rle(T.valid),
        common.clist(counts) if counts else "(@nil (option nat * N))",
        common.cbool(decoded_ok(T, consts)), sbreaks, common.cbool(sc is not None), common.cbool(G is not None))


def coq_train_case(T, cfg):
    """The training list and what the real pass 1 / pass 2 / smoothing produced, for OmenTrainerCorr.check_train.
    The floor table is computed HERE (not by /repo): for every (count, total, factor) the trainer smooths,
    -1.0 * probi |-> floor(-1 * log(probi))."""
    import math
    tr = T.trainer
    tbl = {}

    def add(base, total, factor):
        if total == 0:
            return
        probi = base / total
        probi = probi * factor
        probi = probi + 0.00000000001
        tbl[-1.0 * probi] = math.floor(-1 * math.log(probi))
    for k, d in tr.grammar.items():
        add(d["ip_count"], tr.ip_counter, 250)
        add(d["ep_count"], tr.ep_counter, 250)
        for c, lv in d["next_letter"].items():
            add(lv[1], d["cp_count"], 2)
    for lv in tr.ln_lookup:
        add(lv[1], tr.ln_counter, 1)
    floor = common.clist(["((%s)%%float, (%d)%%Z)" % (common.cfloat(x), v) for x, v in tbl.items()]) if tbl else "(@nil (float * Z))"
    return "(mk_trcase (%d)%%Z (%d)%%Z (%d)%%Z\n %s\n %s\n %s\n %s\n ((%d)%%Z, (%d)%%Z, (%d)%%Z))" % (
        cfg["alphabet_size"], cfg["ngram"], cfg["max_len"], ol.coq_pws_rle(T.valid), common.cstr(T.alphabet), floor,
        ol.coq_tables(T.tables), tr.ip_counter, tr.ep_counter, tr.ln_counter)


def coq_written_case(T):
    """The directory the real writer left, for OmenTrainerCorr.check_written (texts decoded with the ruleset's encoding)."""
    def text(name, enc=None):
        return common.cstr(open(os.path.join(T.omen_dir, name), "rb").read().decode(enc or T.cfg["encoding"]))

    def zz(items):
        return common.clist(["((%d)%%Z, (%d)%%Z)" % (a, b) for a, b in items]) if items else "(@nil (Z * Z))"
    prob = T.file_prob()
    probs = common.clist(["((%d)%%Z, (%s)%%float)" % (a, common.cfloat(b)) for a, b in prob]) if prob else "(@nil (Z * float))"
    return "(mk_wrcase %s\n %s\n %s\n %s\n (%d)%%Z\n %s\n %s\n %s\n %s\n %s\n %s\n %s\n %s)" % (
        ol.coq_tables(T.tables), common.cstr(T.alphabet), zz(list(T.keyspace.items())), zz(list(T.levels_count.items())),
        T.num_valid, text("IP.level"), text("EP.level"), text("CP.level"), text("LN.level", "ascii"), text("alphabet.txt"),
        text("omen_keyspace.txt"), text("omen_pws_per_level.txt"), probs)


WRITTEN_CODES = {1: "IP.level", 2: "EP.level", 3: "CP.level", 4: "LN.level", 5: "alphabet.txt", 6: "omen_keyspace.txt (reversed most_common)",
                 7: "omen_pws_per_level.txt (most_common)", 8: "the probability loop raises in the model",
                 9: "pcfg_omen_prob.txt (values and most_common order)"}

TRAIN_CODES = {1: "the alphabet (AlphabetGenerator)", 2: "AlphabetLookup.parse raises in the model", 3: "ip / ep / ln totals",
               4: "apply_smoothing raises in the model", 5: "the smoothed object has no table view",
               6: "the smoothed tables (counts -> levels: keys, letters, order, IP / EP / CP / LN levels)"}

CODES = {1: "trainer table invariants (wf_ttabb / closedb / levels <= 10)", 2: "IP.level lines", 3: "EP.level lines",
         4: "CP.level lines", 5: "LN.level lines", 6: "a string's level (trainer / scorer [OmenScorer.parse, or the level PCFGPasswordScorer.parse reports] / guesser: model vs implementation)",
         7: "level_strings of the model vs the MarkovCracker output of a level", 8: "omen_levels_count (pass 3)",
         9: "whether the scorer / the guesser could load the directory at all (framing, codec)"}


def run(ctx):
    import extract_consts
    consts = extract_consts.main()
    case_errors = set()
    n = ctx.scale(36, 1500)
    budget = {"cap": ctx.scale(4000, 20000), "per_level": ctx.scale(0.25, 0.5), "per_model": ctx.scale(0.9, 1.3)}
    sc_dir = common.scratch()
    vio, samples, cases, case_cfg = [], [], [], []
    train_cases, train_cfg = [], []
    written_cases = []
    dist = {"models": 0, "unusable_lists": 0, "kinds": {}, "encodings": {}, "ngram": {}, "strings": 0,
            "seen_cp_at_cap_level": 0, "seen_length_at_cap_level": 0, "ip_levels": {}, "cp_levels": {}, "ln_levels": {},
            "strings_using_seen_cap_cp": 0,
            "by_origin": {}, "trainer_level_hist": {}, "unparsable": 0, "guesser_decided": 0, "guesser_undecided": 0,
            "levels_enumerated": 0, "levels_capped": 0, "scorer_loaded": 0, "guesser_loaded": 0}
    seen, nontrivial = set(), 0
    missing_consts = set()
    kinds = list(ol.KINDS)
    # after the n fresh directories: ruleset names WITH A HISTORY (trained two or three times: another n-gram size, alphabet
    # size, encoding, list, ...; a guesser / scorer session in between); the ruleset under test is the LAST training
    n_hist = ctx.scale(9, 150)
    dist["histories"] = 0
    dist["history_variants"] = {}
    for i in range(n + n_hist):
        previous = None
        if i >= n:
            h = ol.gen_retraining(ctx.rng, None, variant="ngram" if i % 3 == 0 else None)
            cfg, previous = h["steps"][-1], h["steps"][:-1]
        else:
            if i in (1, 9) or (i > 30 and i % 40 == 0):
                kind = "extreme"        # CP / LN smoothed to the cap level 10 although seen; IP levels 5..6 and 10
            else:
                kind = kinds[i % len(kinds)] if i < 2 * len(kinds) else None
            cfg = ol.gen_training(ctx.rng, kind)
        try:
            r = explore(ctx, cfg, sc_dir, i, budget, previous)
        except ZeroDivisionError:
            r = None
        if r is None:
            dist["unusable_lists"] += 1
            continue
        T, sc, G, E, cands, rows, v = r
        vio += v
        dist["models"] += 1
        if previous:
            dist["histories"] += 1
            for var in h["variants"]:
                dist["history_variants"][var] = dist["history_variants"].get(var, 0) + 1
        g = T.trainer.grammar
        cap_cps = {k + c for k, d in g.items() for c, lv in d["next_letter"].items() if lv[0] >= 10 and lv[1] > 0}
        dist["seen_cp_at_cap_level"] += len(cap_cps)
        dist["seen_length_at_cap_level"] += sum(1 for lv in T.trainer.ln_lookup if lv[0] >= 10 and lv[1] > 0)
        for k, d in g.items():
            dist["ip_levels"][str(d["ip_level"])] = dist["ip_levels"].get(str(d["ip_level"]), 0) + 1
            for c, lv in d["next_letter"].items():
                dist["cp_levels"][str(lv[0])] = dist["cp_levels"].get(str(lv[0]), 0) + 1
        for lv in T.trainer.ln_lookup:
            dist["ln_levels"][str(lv[0])] = dist["ln_levels"].get(str(lv[0]), 0) + 1
        ngm = T.trainer.ngram
        dist["strings_using_seen_cap_cp"] += sum(
            1 for row in rows if row["trainer"] is not None and
            any(row["s"][j:j + ngm] in cap_cps for j in range(len(row["s"]) - ngm + 1)))
        dist["kinds"][cfg["kind"]] = dist["kinds"].get(cfg["kind"], 0) + 1
        dist["encodings"][cfg["encoding"]] = dist["encodings"].get(cfg["encoding"], 0) + 1
        dist["ngram"][cfg["ngram"]] = dist["ngram"].get(cfg["ngram"], 0) + 1
        dist["scorer_loaded"] += sc is not None
        dist["guesser_loaded"] += G is not None
        dist["levels_enumerated"] += sum(1 for L in E if E[L][1])
        dist["levels_capped"] += sum(1 for L in E if not E[L][1])
        for row in rows:
            dist["strings"] += 1
            dist["by_origin"][row["why"]] = dist["by_origin"].get(row["why"], 0) + 1
            k = "none" if row["trainer"] is None else str(row["trainer"])
            dist["trainer_level_hist"][k] = dist["trainer_level_hist"].get(k, 0) + 1
            if row["guesser"] == "unknown":
                dist["guesser_undecided"] += 1
            else:
                dist["guesser_decided"] += 1
            key = (json.dumps(T.tables, sort_keys=True), row["s"])
            if key not in seen:
                seen.add(key)
                # non-trivial: the string has a level (all three must produce the same number), or it is
                # rejected for a reason other than its length (missing n-gram / foreign character)
                ng, ml = T.trainer.ngram, T.trainer.max_length
                if row["trainer"] is not None or ng <= len(row["s"]) <= ml:
                    nontrivial += 1
        if len(samples) < 4 and rows:
            samples.append({"kind": cfg["kind"], "ngram": cfg["ngram"], "encoding": cfg["encoding"], "alphabet": T.alphabet,
                            "training": cfg["passwords"][:6], "rows": rows[:6]})
        train_cases.append(coq_train_case(T, cfg))
        train_cfg.append(cfg)
        written_cases.append(coq_written_case(T) if T.saved else None)
        try:
            cases.append(coq_case(T, sc, G, E, rows, consts))
            case_cfg.append(cfg)
        except KeyError as e:
            # a constant of a failed extractor plugin is missing: no correspondence case, the oracle still ran
            missing_consts.add(str(e))

    # ---- stage "full": the real run_trainer, the level PCFGPasswordScorer.parse / password_scorer.py report
    full = {"models": 0, "unusable_lists": 0, "kinds": {}, "ngram": {}, "encodings": {}, "alphabet_size": {},
            "strings_reported": 0, "category": {}, "mail_or_site_with_level": 0, "mail_or_site_without_level": 0,
            "reported_by_origin": {}, "cli_runs": 0, "cli_lines": 0, "guesser_decided": 0,
            "limit": {}, "max_omen": {}, "reported_above_max_omen": 0}
    dist["full"] = full
    n_full = ctx.scale(48, 300)
    n_cli_models = ctx.scale(12, 60)
    fbudget = {"cap": ctx.scale(4000, 8000), "per_level": 0.25, "per_model": ctx.scale(0.9, 1.0)}
    t_full = time.time()
    fkinds = ["full_mixed", "full_mailweb", "full_small_alphabet", "full_plain", "full_mixed", "full_mailweb"]
    pending = []
    for i in range(n_full):
        cfg = of.gen_full_training(ctx.rng, fkinds[i % len(fkinds)] if i < 2 * len(fkinds) else None, non_nfc=i % 6 == 3)
        r = explore_full(ctx, cfg, sc_dir, i, fbudget, 40 if i < n_cli_models else 0)
        if r is None:
            full["unusable_lists"] += 1
            continue
        T, sc, G, E, cands, rows, v, rows2, cli = r
        vio += v
        if cli is not None:
            pending.append((T, cli, {"training": cfg}))
        if len(pending) >= 6:
            T0, cli0, rb0 = pending.pop(0)
            v0, nl = cli_oracle(T0, cli0, rb0)
            vio += v0
            full["cli_runs"] += 1
            full["cli_lines"] += nl
        full["models"] += 1
        for k, val in (("kinds", cfg["kind"]), ("ngram", cfg["ngram"]), ("encodings", cfg["encoding"]),
                       ("alphabet_size", cfg["alphabet_size"]), ("limit", cfg["limit"]), ("max_omen", cfg["max_omen"])):
            full[k][str(val)] = full[k].get(str(val), 0) + 1
        dist["scorer_loaded"] += sc is not None
        dist["guesser_loaded"] += G is not None
        ng, ml = T.trainer.ngram, T.trainer.max_length
        tkey = json.dumps(T.tables, sort_keys=True)
        for row in rows + rows2:
            dist["strings"] += 1
            rep = "category" in row
            key = (tkey, row["s"], rep)
            if key not in seen:
                seen.add(key)
                if row["trainer"] is not None or ng <= len(row["s"]) <= ml:
                    nontrivial += 1
            if not rep:
                dist["by_origin"][row["why"]] = dist["by_origin"].get(row["why"], 0) + 1
                full["guesser_decided"] += row["guesser"] != "unknown"
                continue
            full["strings_reported"] += 1
            full["category"][row["category"]] = full["category"].get(row["category"], 0) + 1
            full["reported_by_origin"][row["why"]] = full["reported_by_origin"].get(row["why"], 0) + 1
            full["reported_above_max_omen"] += row["trainer"] is not None and row["trainer"] > cfg["max_omen"]
            if row["category"] in ("e", "w"):
                full["mail_or_site_with_level" if row["trainer"] is not None else "mail_or_site_without_level"] += 1
        if len(samples) < 7 and rows2:
            ew = [x for x in rows2 if x["category"] in ("e", "w") and x["trainer"] is not None]
            samples.append({"kind": cfg["kind"], "ngram": cfg["ngram"], "encoding": cfg["encoding"], "alphabet": T.alphabet,
                            "training": cfg["passwords"][:6], "rows": (ew[:4] + rows2[:3])})
        try:
            # the model is evaluated on a part of the rows (the oracles above saw all of them): what the scorer reports
            # for e-mail / web site looking strings first
            rows2m = sorted(rows2, key=lambda x: (x["category"] not in ("e", "w"), x["trainer"] is None))[:200]
            cases.append(coq_case(T, sc, G, E, rows[:200] + rows2m, consts))
            case_cfg.append(cfg)
        except KeyError as e:
            missing_consts.add(str(e))
    for T0, cli0, rb0 in pending:
        v0, nl = cli_oracle(T0, cli0, rb0)
        vio += v0
        full["cli_runs"] += 1
        full["cli_lines"] += nl

    full["seconds"] = round(time.time() - t_full, 1)

    # ---- correspondence: Coq evaluates the models on the same tables / strings
    per = 6
    shards = []
    for s in range(0, len(cases), per):
        src = ["From Coq Require Import List NArith ZArith.",
               "From Pcfg Require Import OmenSpec OmenLevel OmenKeyspace OmenLevelCorr.",
               "From PcfgGen Require Import Consts_gen.",
               "Import ListNotations.",
               "Definition cases : list c11case := [",
               ";\n".join(cases[s:s + per]), "].",
               "Eval vm_compute in (failing_codes check_c11 cases)."]
        shards.append(("s%04d" % (s // per), "\n".join(src)))
    import omen_gen_tie
    corr = [omen_gen_tie.status("omen-level:translator-tie", "gen/OmenLevel_gen.v", "theories/OmenLevelGenProofs.v")]
    import omen_trainer_tie
    corr += omen_trainer_tie.obligations("C11")
    # the two readers of the OMEN files (guesser: load_rules, scorer: OmenScorer.__init__), translated
    import loader2_tie
    corr += loader2_tie.obligations("C11")
    if missing_consts:
        corr.append(("omen-level:constants", False, "constants missing from gen/Consts_gen.v (extractor plugin failed): %s; "
                     "no correspondence case could be written" % sorted(missing_consts)))
    for (name, idx, log), s in zip(common.run_case_shards("C11", shards), range(0, len(cases), per)):
        if idx is None:
            corr.append(("omen-level:" + name, False, log[-1200:]))
        elif idx:
            first = idx[0]
            corr.append(("omen-level:" + name, False, "model and implementation differ: case %d sub-check %d (%s); training list: %s"
                         % (s + first // 10, first % 10, CODES.get(first % 10), json.dumps(case_cfg[s + first // 10])[:500])))
        else:
            corr.append(("omen-level:" + name, True, ""))
    # ---- correspondence of the TRAINER model (OmenTrainer.v): alphabet, pass 2, smoothing on the same lists
    tshards = []
    for s0 in range(0, len(train_cases), per):
        src = ["From Coq Require Import List NArith ZArith Floats.",
               "From Pcfg Require Import OmenSpec OmenLevel OmenLevelCorr OmenTrainer OmenTrainerCorr.",
               "Import ListNotations.",
               "Definition cases : list trcase := [",
               ";\n".join(train_cases[s0:s0 + per]), "].",
               "Eval vm_compute in (failing_codes check_train cases)."]
        tshards.append(("t%04d" % (s0 // per), "\n".join(src)))
    wr = [(i, c) for i, c in enumerate(written_cases) if c is not None]
    for s0 in range(0, len(wr), per):
        src = ["From Coq Require Import List NArith ZArith Floats.",
               "From Pcfg Require Import OmenSpec OmenLevel OmenLevelCorr OmenTrainer OmenTrainerCorr.",
               "Import ListNotations.",
               "Definition cases : list wrcase := [",
               ";\n".join(c for _, c in wr[s0:s0 + per]), "].",
               "Eval vm_compute in (failing_codes check_written cases)."]
        tshards.append(("w%04d" % (s0 // per), "\n".join(src)))
    for name, idx, log in common.run_case_shards("C11", tshards):
        s0 = int(name[1:]) * per
        if idx is None:
            corr.append(("omen-trainer-model:" + name, False, log[-1200:]))
        elif idx:
            first = idx[0]
            if name.startswith("t"):
                what, ci = TRAIN_CODES.get(first % 10), s0 + first // 10
            else:
                what, ci = WRITTEN_CODES.get(first % 10), wr[s0 + first // 10][0]
            corr.append(("omen-trainer-model:" + name, False, "model and implementation differ: case %d sub-check %d (%s); "
                         "training list: %s" % (ci, first % 10, what, json.dumps(train_cfg[ci])[:500])))
        else:
            corr.append(("omen-trainer-model:" + name, True, ""))
    rule = ("generated training lists (3-40 passwords, alphabets of 2-8 symbols, n-gram 2-4; families: dominated by length = "
            "n-gram, single length, mixed, alphabet smaller than the character set, duplicates, non-ASCII in utf-8 / latin-1 / "
            "cp1251, text that is not in Unicode normal form C - combining marks after their base letter, singletons, Hangul jamo, CJK "
            "compatibility ideographs - next to its NFC twin (utf-8 / utf-16 / utf-16-le), long, empty CP, and 'extreme ratio' lists of ~100k weighted passwords in which a seen transition and a "
            "seen length are smoothed to the cap level 10) trained in-process with the real trainer objects and written by the real writer; per model "
            "the candidate strings are the training passwords, members of enumerated levels, walks of every boundary length "
            "(0, 1, ngram-1, ngram, ngram+1, max-1, max, max+1, max+2), foreign-character and one-character mutations, the NFC / NFD spelling of every training password and member "
            "that has another one; each is "
            "put to find_omen_level, OmenScorer.parse and the per-level MarkovCracker output; stage 'full': lists of 6-22 distinct "
            "strings (ordinary word+digit passwords, e-mail addresses, web sites with www./http:// prefixes, tails, upper case; "
            "n-gram 2-5, alphabet 10-100, utf-8 / latin-1 / cp1252; scorer --limit 0..0.01, --max_omen 0..12) trained by the real run_trainer; per ruleset the same "
            "candidates plus recombined / unseen / too long / too short / foreign-character e-mail and web site looking strings "
            "are ALSO put to PCFGPasswordScorer.parse (built as password_scorer.py builds it) whose 4th field is compared with "
            "the trainer's level, the MarkovCracker's level and the model, and up to 40 of them go through password_scorer.py "
            "itself (-o file / stdout alternating), whose level column is compared with the trainer's level; non-trivial = the "
            "string has a level or is rejected for a reason other than its length; distinct by (tables, string, which scorer "
            "entry point).  After the fresh directories: "
            "ruleset names WITH A HISTORY - the real trainer run two or three times onto one directory (another n-gram size: 4 then 5, "
            "3 then 4, ...; another alphabet size, encoding, list; the same again), the real guesser and scorer loaders run on it in "
            "between - and the same three-way comparison, counts oracle and Coq cases on the LAST result")
    if vio:
        vio = shrink_all(ctx, vio)
    return {"evaluations": dist["strings"], "distinct_nontrivial": nontrivial, "rule": rule, "samples": samples,
            "corr": corr, "violations": vio, "dist": dist}


def check_one(rng, cfg, string, budget, cli=None, previous=None):
    """The three-way oracle on one training configuration (and one string, or generated candidates); previous: the
    trainings the same directory received before."""
    return mark_retrained(check_one_(rng, cfg, string, budget, cli, previous), previous)


def check_one_(rng, cfg, string, budget, cli, previous):
    sc_dir = common.scratch()
    is_full = cfg.get("stage") == "full"
    pretrain(previous, os.path.join(sc_dir, "r"))
    base = {"training": cfg}
    if previous:
        base["previous"] = list(previous)
    try:
        T = of.FullTrained(cfg, os.path.join(sc_dir, "r")) if is_full else ol.Trained(cfg, os.path.join(sc_dir, "r"))
    except ZeroDivisionError:
        return []
    if not T.usable:
        return []
    sc, sc_err = T.load_scorer()
    G, g_err = T.load_guesser()
    E = {}
    vio = []
    if G is not None:
        tl = [T.trainer_level(p) for p in set(T.valid)]
        if string is not None:
            tl.append(T.trainer_level(string))
        top = min(max([l for l in tl if l >= 0] + [2]) + 1, 16)
        E = ol.enumerate_sets(G, range(0, top + 1), budget["cap"], budget["per_level"], budget["per_model"])
        errs = [(L, E[L][3]) for L in E if E[L][3]]
        for L, _ in errs:
            E.pop(L)
        if errs:
            vio.append({"sig": "C11:guesser-raises", "what": "MarkovCracker raises at target level %d: %s" % errs[0],
                        "replay": dict(base, string=None)})
    cands = [(string, "replay")] if string is not None else (of.candidates if is_full else ol.candidates)(rng, T, E)
    v, _ = three_way(T, sc, sc_err, G, g_err, E, cands, base)
    vio += v
    vio += counts_oracle(T, G, E, base)
    if is_full:
        P, p_err = of.build_pcfg_scorer(T.base_dir, cfg.get("limit", 0), cfg.get("max_omen", 9))
        v, rows2 = reported_oracle(T, P, p_err, E, cands, base)
        vio += v
        if cli and P is not None:
            strings = [x for x in cli if of.cli_safe(x, cfg["encoding"])] if isinstance(cli, list) else \
                cli_strings(rng, cands, rows2, cfg["encoding"], 40)
            for to_file in (True, False):
                if strings:
                    v, _ = cli_oracle(T, of.start_cli(T, "R%d" % os.getpid(), strings, to_file), base)
                    vio += v
    return vio


def shrink_all(ctx, vio, seconds_each=2.0, max_sigs=4):
    """Per signature: the hit with the smallest training list, delta-debugged, moved to the front."""
    by = {}
    for v in vio:
        tr = (v.get("replay") or {}).get("training")
        if tr is None:
            continue
        if v["sig"] not in by or len(tr["passwords"]) < len(by[v["sig"]]["replay"]["training"]["passwords"]):
            by[v["sig"]] = v
    small = {"cap": 3000, "per_level": 0.2, "per_model": 0.6}
    front = []
    for sig, v in list(by.items())[:max_sigs]:
        s = v["replay"].get("string")
        prev = v["replay"].get("previous")

        cli = v["replay"].get("cli") if "scorer-cli" in sig else None

        def still(c, sig=sig, s=s, cli=cli, prev=prev):
            return any(x["sig"] == sig for x in check_one(ctx.rng, c, s, small, cli, prev))
        cfg2 = ol.shrink_training(v["replay"]["training"], still, seconds_each * (2 if cli else 1))
        hits = [x for x in check_one(ctx.rng, cfg2, s, small, cli, prev) if x["sig"] == sig]
        front.append(hits[0] if hits else v)
    return front + vio


def replay(ctx, data):
    inp = data.get("input") or {}
    if "training" not in inp:
        return []
    return check_one(ctx.rng, inp["training"], inp.get("string"), {"cap": 50000, "per_level": 5.0, "per_model": 30.0},
                     cli=inp.get("cli") or True, previous=inp.get("previous"))
