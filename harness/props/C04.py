"""C04: a pre-terminal expands to exactly the product of its terminal groups.
Implementation = PcfgGrammar.create_guesses of /repo (output function swapped
for a collector), model = Expand.v."""
import itertools
import json

import common
import impl_next
import rulesets

ID = "C04"
TRUSTED = ["str.upper() per character is supplied to the model as a table probed from the running interpreter",
           "the Markov level's strings are supplied by a separate run of the real MarkovCracker (exactness of that generator is C10)",
           "second tie (translator): harness/translate_expand.py (ast -> Gallina, fail closed; accepted subset and what it does not model in its docstring) and the meaning coq/theories/ExpandRt.v gives to Python subscripts, slices, `if limit:` and str methods; print_guess, MarkovCracker, int() and str.upper() of one character are parameters of the generated functions"]
ASSUMES = ["pre-terminal well-formed (seg_ok): every C_n follows an A_n whose words have n characters, masks have n characters; no empty group"]

CAT = {"M": 0, "C": 1}


import loader_tie as _loader_tie
TRUSTED = TRUSTED + [_loader_tie.TRUSTED]
import loader2_tie as _loader2_tie
TRUSTED = TRUSTED + [_loader2_tie.TRUSTED]


def collect(g, pt, limit):
    """create_guesses with print_guess collected; returns (lines, count) or None if it raised."""
    lines = []
    old = g.print_guess
    g.print_guess = lines.append
    try:
        try:
            n = g.create_guesses(pt, limit=limit)
        except (IndexError, KeyError, ValueError):
            return None
    finally:
        g.print_guess = old
    return lines, n


def omen_level(g, level):
    from lib_guesser.omen.markov_cracker import MarkovCracker
    from lib_guesser.omen.optimizer import Optimizer
    mc = MarkovCracker(g.omen_grammar, int(level), Optimizer(max_length=4))
    out = []
    while len(out) < 5000:
        s = mc.next_guess()
        if s is None:
            break
        out.append(s)
    return out


def independent_product(g, pt):
    """The property's own definition, straight from the loaded groups."""
    choices = []
    i = 0
    while i < len(pt):
        t, ix = pt[i]
        vals = g.grammar[t][ix]["values"]
        if t[0] == "M":
            return None
        if t[0] == "A" and i + 1 < len(pt) and pt[i + 1][0][0] == "C":
            masks = g.grammar[pt[i + 1][0]][pt[i + 1][1]]["values"]
            ch = []
            for w in vals:
                for m in masks:
                    ch.append("".join(c if mc == "L" else c.upper() for c, mc in zip(w, m)))
            choices.append(ch)
            i += 2
        else:
            choices.append(list(vals))
            i += 1
    return ["".join(p) for p in itertools.product(*choices)]


def oracle(g, pt, calls, rs_files, replay):
    vio = []
    want = independent_product(g, pt)
    for limit, res in calls:
        if res is None:
            vio.append({"sig": "C04:raised", "what": "create_guesses raised on a well-formed pre-terminal %r" % (pt,), "replay": replay})
            continue
        lines, n = res
        if n != len(lines):
            vio.append({"sig": "C04:count", "what": "reported %d guesses but wrote %d lines for %r (limit %r)" % (n, len(lines), pt, limit),
                        "replay": dict(replay, limit=limit)})
        if want is not None:
            exp = want if not limit else want[:limit]
            if lines != exp:
                vio.append({"sig": "C04:product", "what": "lines differ from the product of the groups for %r (limit %r): got %r..., want %r..."
                            % (pt, limit, lines[:4], exp[:4]), "replay": dict(replay, limit=limit)})
    return vio


def group_prob_oracle(g, rs):
    """every value of a group has, in the file, the probability reported for the group; every line is in exactly one group"""
    vio = []
    for name, lines in rs["files"].items():
        if name not in g.grammar:
            continue
        seen = {}
        for grp in g.grammar[name]:
            for v in grp["values"]:
                seen.setdefault(v, []).append(grp["prob"])
        for v, p in lines:
            if seen.get(v) != [p] and not (name[0] == "C" and len(g.grammar[name]) == 1 and g.grammar[name][0]["prob"] == 1.0):
                vio.append({"sig": "C04:group-prob", "what": "%s value %r has probability %r in the file but groups say %r" % (name, v, p, seen.get(v)),
                            "replay": {"ruleset": rs}})
                return vio
    return vio


def slots_literal(g, pt):
    out = []
    for t, ix in pt:
        vals = g.grammar[t][ix]["values"]
        out.append("(%d%%nat, %s)" % (CAT.get(t[0], 2), common.clist([common.cstr(v) for v in vals]) if vals else "(@nil str)"))
    return common.clist(out)


def call_literal(limit, res):
    l = "None" if limit is None else "(Some %d%%nat)" % limit
    if res is None:
        return "(%s, None)" % l
    lines, n = res
    return "(%s, Some (%s, %d%%nat))" % (l, common.clist([common.cstr(s) for s in lines]) if lines else "(@nil str)", n)


def run(ctx):
    nrs = ctx.scale(45, 600)
    sc = common.scratch()
    vio, samples, shards = [], [], []
    dist = {"rulesets": 0, "preterminals": 0, "calls": 0, "with_mask": 0, "adjacent_alpha": 0, "markov": 0,
            "non_ascii": 0, "expanding_upper": 0, "limited_calls": 0, "malformed": 0}
    seen, nontrivial = set(), 0
    for r in range(nrs):
        rs = rulesets.gen_ruleset(ctx.rng, max_bases=3, max_len=4)
        if ctx.rng.random() < 0.3:
            # a word whose upper() expands, and non-BMP / spaces
            for k in list(rs["files"]):
                if k[0] == "A" and k[1:] == "3":
                    rs["files"][k] = [("aß ", rs["files"][k][0][1])] + rs["files"][k]
        malformed = ctx.rng.random() < 0.08
        if malformed:
            cn = [k for k in rs["files"] if k[0] == "C"]
            if cn:
                rs["grammar"] = [(cn[0] + "D1" if "D1" in rs["files"] else cn[0], rs["grammar"][0][1])] + rs["grammar"][1:]
        try:
            g = impl_next.load_grammar(rs, sc, False, ctx.rng.random() < 0.2, "Grammar")
        except Exception:
            continue
        items, _, capped, _ = impl_next.full_stream(g, cap=ctx.scale(80, 200), check_heap=False)
        dist["rulesets"] += 1
        vio += group_prob_oracle(g, rs)
        chars = set()
        omen_tbl = {}
        cases = []
        for it in items:
            pt = it["pt"]
            is_m = any(t[0] == "M" for t, _ in pt)
            if is_m:
                lv = g.grammar[pt[0][0]][pt[0][1]]["values"][0]
                if lv not in omen_tbl:
                    omen_tbl[lv] = omen_level(g, lv)
                total = len(omen_tbl[lv])
            else:
                total = 1
                for t, ix in pt:
                    total *= len(g.grammar[t][ix]["values"])
            limits = [None, 1]
            if total > 1:
                limits += [total - 1, total, total + 1, ctx.rng.randint(1, total)]
            calls = [(l, collect(g, pt, l)) for l in dict.fromkeys(limits)]
            dist["preterminals"] += 1
            dist["calls"] += len(calls)
            dist["limited_calls"] += sum(1 for l, _ in calls if l)
            bad_pt = any(t[0] == "C" and (i == 0 or pt[i - 1][0][0] != "A") for i, (t, _) in enumerate(pt))
            replay = {"ruleset": rs, "pt": pt, "skip_case": False}
            if bad_pt:
                dist["malformed"] += 1
            elif is_m:
                dist["markov"] += 1
                levels = g.grammar[pt[0][0]][pt[0][1]]["values"]
                if len(levels) > 1:
                    dist["markov_multi_level_group"] = dist.get("markov_multi_level_group", 0) + 1
                full = []
                for lvx in levels:
                    if lvx not in omen_tbl:
                        omen_tbl[lvx] = omen_level(g, lvx)
                    full += omen_tbl[lvx]
                for l, res in calls:
                    exp = full if not l else full[:l]
                    if res is None or res[0] != exp or res[1] != len(exp):
                        kind = "markov-group" if len(levels) > 1 and res is not None and res[0] == (omen_tbl[lv] if not l else omen_tbl[lv][:l]) else "markov"
                        vio.append({"sig": "C04:" + kind, "what": "Markov pre-terminal for level(s) %s: output differs from the strings of its level(s) (limit %r): %d lines, expected %d"
                                    % (levels, l, -1 if res is None else len(res[0]), len(exp)), "replay": dict(replay, limit=l)})
                        break
            else:
                vio += oracle(g, pt, calls, rs["files"], replay)
            has_mask = any(t[0] == "C" and len(g.grammar[t][ix]["values"][0]) > 0 and
                           any("U" in m for m in g.grammar[t][ix]["values"]) for t, ix in pt)
            adj = sum(1 for t, _ in pt if t[0] == "A") >= 2
            nonascii = any(ord(c) > 127 for t, ix in pt for v in g.grammar[t][ix]["values"] for c in v)
            dist["with_mask"] += has_mask
            dist["adjacent_alpha"] += adj
            dist["non_ascii"] += nonascii
            for t, ix in pt:
                for v in g.grammar[t][ix]["values"]:
                    chars.update(v)
            key = json.dumps([[(t, g.grammar[t][ix]["values"]) for t, ix in pt]])
            if key not in seen:
                seen.add(key)
                if has_mask or adj or is_m or total > 1:
                    nontrivial += 1
            cases.append("(%s,\n  %s)" % (slots_literal(g, pt), common.clist([call_literal(l, res) for l, res in calls])))
            if len(samples) < 3 and has_mask:
                samples.append({"pt": pt, "groups": [g.grammar[t][ix]["values"] for t, ix in pt],
                                "lines": calls[0][1][0][:6] if calls[0][1] else None})
        up = [(c, c.upper()) for c in sorted(chars) if c.upper() != c]
        dist["expanding_upper"] += sum(1 for c, u in up if len(u) != 1)
        if not cases:
            continue
        src = ["From Coq Require Import List NArith.", "From Pcfg Require Import Expand ExpandCorr.",
               "Import ListNotations.",
               "Definition up : list (N * str) := %s." % (common.clist(["(%d%%N, %s)" % (ord(c), common.cstr(u)) for c, u in up]) if up else "[]"),
               "Definition om : list (str * list str) := %s." % (
                   common.clist(["(%s, %s)" % (common.cstr(k), common.clist([common.cstr(s) for s in v]) if v else "(@nil str)")
                                 for k, v in omen_tbl.items()]) if omen_tbl else "[]"),
               "Definition cases : list (list (nat * list str) * list call) := [",
               ";\n".join(cases), "].",
               "Eval vm_compute in (failing (check_pt up om) cases)."]
        shards.append(("r%04d" % r, "\n".join(src)))
    corr = []
    for name, idx, log in common.run_case_shards("C04", shards):
        if idx is None:
            corr.append(("expand:" + name, False, log[-800:]))
        elif idx:
            corr.append(("expand:" + name, False, "model and create_guesses differ on pre-terminals %s of ruleset %s" % (idx, name)))
        else:
            corr.append(("expand:" + name, True, ""))
    rule = ("every pre-terminal (first <= 80 in probability order) of generated rulesets (values with spaces, non-ASCII, "
            "'ß' whose upper() expands, adjacent alpha words, alpha at start/middle/end, Markov pre-terminals, a few malformed "
            "structures starting with C), create_guesses called with limit None, 1, total-1, total, total+1 and a random inner "
            "value; non-trivial = has an upper-casing mask, two alpha words, a Markov level or more than one guess; distinct by "
            "the groups' values")
    # second tie to the source (translator): name the broken equality if the build lost ExpandGenProofs
    import expand_tie
    corr.append(expand_tie.obligation())
    # ... and of the loader that builds the groups (group-probability clause)
    import loader_tie
    corr.append(loader_tie.obligation())
    # ... and of _load_terminals / _load_from_multiple_files, which decide which file becomes which group list
    import loader2_tie
    corr += loader2_tie.obligations("C04")
    return {"evaluations": dist["calls"], "distinct_nontrivial": nontrivial, "rule": rule, "samples": samples,
            "corr": corr, "violations": vio, "dist": dist}


def replay(ctx, data):
    inp = data.get("input") or {}
    if "ruleset" not in inp:
        return []
    sc = common.scratch()
    g = impl_next.load_grammar(inp["ruleset"], sc, False, inp.get("skip_case", False), "Grammar")
    if "pt" not in inp:
        return group_prob_oracle(g, inp["ruleset"])
    pt = [tuple(x) for x in inp["pt"]]
    l = inp.get("limit")
    if pt and pt[0][0][0] == "M":
        levels = g.grammar[pt[0][0]][pt[0][1]]["values"]
        full = []
        for lvx in levels:
            full += omen_level(g, lvx)
        exp = full if not l else full[:l]
        res = collect(g, pt, l)
        if res is None or res[0] != exp or res[1] != len(exp):
            return [{"sig": "C04:markov-group" if len(levels) > 1 else "C04:markov",
                     "what": "Markov pre-terminal for level(s) %s: %d lines, expected %d" % (levels, -1 if res is None else len(res[0]), len(exp)),
                     "replay": inp}]
        return []
    return oracle(g, pt, [(l, collect(g, pt, l))], inp["ruleset"]["files"], inp)
