"""C04: a pre-terminal expands to exactly the product of its terminal groups.
Implementation = PcfgGrammar.create_guesses of /repo (output function swapped
for a collector), model = Expand.v.  Markov pre-terminals are additionally
expanded on generated OMEN models with entries AT the maximum level (levels
0..13, 20.., on the grammar's one Optimizer) and compared with the independent
enumerator omen_gen.brute_levels and with Omen.v's generator (markov_exploration)."""
import itertools
import json

import common
import impl_next
import rulesets

ID = "C04"
TRUSTED = ["str.upper() per character is supplied to the model as a table probed from the running interpreter",
           "the Markov level's strings are supplied to Expand.v by a separate run of the real MarkovCracker (exactness of that generator is C10); "
           "for the generated OMEN models with entries at the maximum level the reference is harness/omen_gen.brute_levels (independent "
           "enumerator over the lines of the Omen files) and Omen.v's generator evaluated by coqc on the same files",
           "second tie (translator): harness/translate_expand.py (ast -> Gallina, fail closed; accepted subset and what it does not model in its docstring) and the meaning coq/theories/ExpandRt.v gives to Python subscripts, slices, `if limit:` and str methods; print_guess, MarkovCracker, int() and str.upper() of one character are parameters of the generated functions"]
ASSUMES = ["pre-terminal well-formed (seg_ok): every C_n follows an A_n whose words have n characters, masks have n characters; no empty group"]

CAT = {"M": 0, "C": 1}


import loader_tie as _loader_tie
TRUSTED = TRUSTED + [_loader_tie.TRUSTED]
import loader2_tie as _loader2_tie
TRUSTED = TRUSTED + [_loader2_tie.TRUSTED]


def collect(g, pt, limit):
    """create_guesses with print_guess collected; returns (lines, count) or None if it raised."""
    lines = []
    old = g.print_guess
    g.print_guess = lines.append
    try:
        try:
            n = g.create_guesses(pt, limit=limit)
        except (IndexError, KeyError, ValueError):
            return None
    finally:
        g.print_guess = old
    return lines, n


def omen_level(g, level):
    from lib_guesser.omen.markov_cracker import MarkovCracker
    from lib_guesser.omen.optimizer import Optimizer
    mc = MarkovCracker(g.omen_grammar, int(level), Optimizer(max_length=4))
    out = []
    while len(out) < 5000:
        s = mc.next_guess()
        if s is None:
            break
        out.append(s)
    return out


def independent_product(g, pt):
    """The property's own definition, straight from the loaded groups."""
    choices = []
    i = 0
    while i < len(pt):
        t, ix = pt[i]
        vals = g.grammar[t][ix]["values"]
        if t[0] == "M":
            return None
        if t[0] == "A" and i + 1 < len(pt) and pt[i + 1][0][0] == "C":
            masks = g.grammar[pt[i + 1][0]][pt[i + 1][1]]["values"]
            ch = []
            for w in vals:
                for m in masks:
                    ch.append("".join(c if mc == "L" else c.upper() for c, mc in zip(w, m)))
            choices.append(ch)
            i += 2
        else:
            choices.append(list(vals))
            i += 1
    return ["".join(p) for p in itertools.product(*choices)]


def oracle(g, pt, calls, rs_files, replay):
    vio = []
    want = independent_product(g, pt)
    for limit, res in calls:
        if res is None:
            vio.append({"sig": "C04:raised", "what": "create_guesses raised on a well-formed pre-terminal %r" % (pt,), "replay": replay})
            continue
        lines, n = res
        if n != len(lines):
            vio.append({"sig": "C04:count", "what": "reported %d guesses but wrote %d lines for %r (limit %r)" % (n, len(lines), pt, limit),
                        "replay": dict(replay, limit=limit)})
        if want is not None:
            exp = want if not limit else want[:limit]
            if lines != exp:
                vio.append({"sig": "C04:product", "what": "lines differ from the product of the groups for %r (limit %r): got %r..., want %r..."
                            % (pt, limit, lines[:4], exp[:4]), "replay": dict(replay, limit=limit)})
    return vio


def group_prob_oracle(g, rs):
    """every value of a group has, in the file, the probability reported for the group; every line is in exactly one group"""
    vio = []
    for name, lines in rs["files"].items():
        if name not in g.grammar:
            continue
        seen = {}
        for grp in g.grammar[name]:
            for v in grp["values"]:
                seen.setdefault(v, []).append(grp["prob"])
        for v, p in lines:
            if seen.get(v) != [p] and not (name[0] == "C" and len(g.grammar[name]) == 1 and g.grammar[name][0]["prob"] == 1.0):
                vio.append({"sig": "C04:group-prob", "what": "%s value %r has probability %r in the file but groups say %r" % (name, v, p, seen.get(v)),
                            "replay": {"ruleset": rs}})
                return vio
    return vio


# ---------------------------------------------------------------- Markov pre-terminals against an independent enumeration
# The reference for "the strings of its OMEN level" is omen_gen.brute_levels (plain extension of strings over the LINES of
# the Omen files), never the MarkovCracker of the tree under test.

def collect_any(g, pt, limit):
    """collect(), but any exception of the implementation is a result (None), not a crash of the check"""
    try:
        return collect(g, pt, limit)
    except Exception as e:
        if type(e).__name__ == "ImplementationHangs":      # the driver's wall-clock budget, not a result
            raise
        return None


def omen_levels_for(rng, buckets, top, nmax):
    """the levels written to pcfg_omen_prob.txt: every level 0..top+3 (the levels around the maximum level are the ones that
    need an entry of the last level of a table), the non-empty levels around 2*top (both tables at the last level), up to
    three other non-empty higher ones and one empty level above everything"""
    mx = max(buckets) if buckets else 0
    Ts = list(range(0, top + 4))
    high = [t for t in sorted(buckets) if t > top + 3]
    pick = [t for t in high if 2 * top <= t <= 2 * top + 2]
    rest = [t for t in high if t not in pick]
    rng.shuffle(rest)
    Ts += pick + rest[:3]
    Ts.append(max(mx, top + 3) + 1 + rng.randint(0, 2))
    return Ts[:nmax]


def omen_ruleset(rng, om, Ts):
    """a ruleset around the OMEN model: a small generated grammar with an 'M' base structure, one line per level in
    pcfg_omen_prob.txt (probabilities descending, some equal so that several levels share a group in the file)"""
    rs = rulesets.gen_ruleset(rng, with_markov=True, max_bases=2, max_len=2)
    rs["omen"] = om
    levels = list(Ts)
    rng.shuffle(levels)
    ps = rulesets.gen_probs(rng, len(levels), False)
    for k in range(1, len(ps)):
        if rng.random() < 0.25:
            ps[k] = ps[k - 1]
    rs["omen_prob"] = list(zip([str(l) for l in levels], ps))
    return rs


def want_of(buckets, levels):
    from collections import Counter
    want = Counter()
    for lv in levels:
        want.update(buckets.get(int(lv), Counter()))
    return want


def markov_oracle(buckets, levels, limit, res, replay):
    """one call of create_guesses([('M', i)], limit) against the brute-force level sets.  limit None: the lines are exactly
    the strings of the level(s), each once (multiset), i.e. nothing missing = the generator was exhausted; limit N: min(N,
    total) lines, all of the level, none twice.  Always: returned count == lines written."""
    from collections import Counter
    rp = dict(replay, limit=limit)
    if res is None:
        return [{"sig": "C04:markov-raised", "what": "create_guesses raised on the Markov pre-terminal of level(s) %s (limit %r)"
                 % (levels, limit), "replay": rp}]
    vio = []
    lines, n = res
    if n != len(lines):
        vio.append({"sig": "C04:count", "what": "Markov level(s) %s: reported %r guesses but wrote %d lines (limit %r)"
                    % (levels, n, len(lines), limit), "replay": rp})
    want = want_of(buckets, levels)
    total = sum(want.values())
    got = Counter(lines)
    extra = got - want
    if extra:
        e = next(iter(extra))
        vio.append({"sig": "C04:markov-level:extra",
                    "what": "Markov level(s) %s (limit %r): wrote %r %d time(s) but %d derivation(s) of it have that level; %d lines, %d strings in the level"
                            % (levels, limit, e, got[e], want[e], len(lines), total), "replay": rp})
    if not limit:
        miss = want - got
        if miss:
            vio.append({"sig": "C04:markov-level:missing",
                        "what": "Markov level(s) %s: wrote %d lines, the level holds %d strings; %d missing, e.g. %r"
                                % (levels, len(lines), total, sum(miss.values()), sorted(miss)[:3]), "replay": rp})
    elif len(lines) != min(limit, total):
        vio.append({"sig": "C04:markov-limit", "what": "Markov level(s) %s with limit %d: wrote %d lines, the level holds %d strings"
                    % (levels, limit, len(lines), total), "replay": rp})
    return vio


def markov_exploration(ctx, sc, dist):
    """Small OMEN models with initial n-grams / lengths AT the maximum level, every level 0..max+3 (and around 2*max) as a
    Markov pre-terminal of a ruleset, expanded through create_guesses on the grammar's one shared Optimizer in random order.
    Returns (violations, coq cases, evaluations, distinct non-trivial, samples)."""
    import omen_gen
    from collections import Counter
    import consts.omen_gen as cg
    top = cg.extract()["omen_max_level"]
    if top != omen_gen.TOP_LEVEL:
        raise RuntimeError("the maximum OMEN level of the source (%r) is not the one the generated models are built for" % top)
    vio, cases, samples = [], [], []
    evaluations, nontrivial = 0, 0
    seen = set()
    nmodels = ctx.scale(28, 260)
    forced = [{"ip_mode": "top", "ln_mode": "top", "cp_mode": "zero"}, {"ip_mode": "top", "ln_mode": "low"},
              {"ip_mode": "low", "ln_mode": "top"}, {"ip_mode": "all10", "ln_mode": "top"}, {"ip_mode": "top", "ln_mode": "all10"},
              {"ip_mode": "top", "ln_mode": "top", "ngram": 4}]
    for m in range(nmodels):
        om = omen_gen.gen_top_model(ctx.rng, max_strings=ctx.scale(1200, 2500), force=forced[m] if m < len(forced) else None)
        buckets = omen_gen.brute_levels(om)
        Ts = omen_levels_for(ctx.rng, buckets, top, ctx.scale(20, 24))
        rs = omen_ruleset(ctx.rng, om, Ts)
        try:
            g = impl_next.load_grammar(rs, sc, False, False, "Grammar")
        except Exception as e:
            vio.append({"sig": "C04:markov-load", "what": "a ruleset with OMEN levels %s does not load: %r" % (sorted(Ts), e),
                        "replay": {"ruleset": rs, "markov": True}})
            continue
        dist["markov_models"] += 1
        dist["markov_models_ip_at_max"] += om["modes"]["top_ip"] > 0
        dist["markov_models_ln_at_max"] += om["modes"]["top_ln"] > 0
        dist["markov_models_ngram_%d" % om["ngram"]] = dist.get("markov_models_ngram_%d" % om["ngram"], 0) + 1
        order = list(range(len(g.grammar["M"])))
        ctx.rng.shuffle(order)
        if order:
            order.append(ctx.rng.choice(order))          # one level twice on the same Optimizer
        history, observed = [], []
        for i in order:
            pt = [("M", i)]
            levels = list(g.grammar["M"][i]["values"])
            want = want_of(buckets, levels)
            total = sum(want.values())
            limits = [None]
            if total > 1 and ctx.rng.random() < 0.5:
                limits.append(ctx.rng.choice([1, total - 1, total, total + 1, ctx.rng.randint(1, total)]))
            if ctx.rng.random() < 0.3:
                limits.reverse()
            for l in limits:
                res = collect_any(g, pt, l)
                evaluations += 1
                dist["markov_calls"] += 1
                replay = {"ruleset": rs, "pt": pt, "skip_case": False, "markov": True, "history": list(history)}
                v = markov_oracle(buckets, levels, l, res, replay)
                if v and history:
                    # shortest explanation first: does the call fail on a new grammar object (empty Optimizer) too?
                    g2 = impl_next.load_grammar(rs, sc, False, False, "Grammar")
                    if markov_oracle(buckets, levels, l, collect_any(g2, pt, l), replay):
                        for x in v:
                            x["replay"] = dict(x["replay"], history=[])
                vio += v
                history.append([i, l])
                lv = [int(x) for x in levels]
                via_top = bool(total) and min(lv) >= top
                dist["markov_levels_at_or_above_max_nonempty"] += via_top
                dist["markov_levels_nonempty"] += bool(total)
                dist["markov_strings"] += 0 if res is None else len(res[0])
                key = (omen_gen.model_key(om), tuple(lv), l)
                if key not in seen:
                    seen.add(key)
                    nontrivial += bool(total > 1 or via_top)
                if res is not None and len(lv) == 1:
                    # (level, lines, the generator was run to exhaustion) in the order of the calls on the one Optimizer
                    observed.append((lv[0], res[0], not l or len(res[0]) < l))
                if len(samples) < 2 and via_top and res is not None and not l:
                    samples.append({"markov_level": lv, "ngram": om["ngram"], "ip": om["ip"][:6], "ln": om["ln"], "lines": res[0][:6],
                                    "strings_in_level": total})
        cases.append({"om": om, "grammar": g.omen_grammar, "levels": observed})
    return vio, cases, evaluations, nontrivial, samples


OMEN_HEADER = ["From Coq Require Import List NArith ZArith.", "From Pcfg Require Import OmenSpec Omen OmenCorr.",
               "From PcfgGen Require Import Consts_gen.", "Import ListNotations.", "Open Scope nat_scope."]


def markov_shards(ctx, cases, dist):
    """The same observations for Coq: Omen.v's generator (the one the C10 theorems are about) run on the LINES of the
    model's files must emit, level after level on one cache, exactly what create_guesses wrote (lists compared exactly,
    exhaustion included); the loaded tables are compared too (OmenCorr.check_case)."""
    import omen_gen
    coq_cap, model_cap = ctx.scale(120, 200), ctx.scale(700, 1200)
    lits, weight = [], []
    for c in cases:
        ip, ln, cp = omen_gen.loaded_tables(c["grammar"])
        lv, total = [], 0
        for T, out, complete in c["levels"]:
            if total >= model_cap:
                dist["markov_coq_levels_skipped"] += 1
                continue
            if len(out) > coq_cap:
                out, complete = out[:coq_cap], False
                dist["markov_coq_levels_prefix_only"] += 1
            total += len(out) + 5
            lv.append("((%d)%%Z, %s, %s)" % (T, omen_gen.cstrs(out), common.cbool(complete)))
            dist["markov_coq_levels"] += 1
        lits.append("(mk_case %s\n %s\n %s\n %s\n false\n %s\n false\n %s)" % (
            omen_gen.coq_model(c["om"]), ip, ln, cp,
            ("[" + ";\n  ".join(lv) + "]") if lv else "(@nil (Z * list (list N) * bool))", omen_gen.centries([])))
        weight.append(len(lits[-1]) + 40 * len(c["om"]["cp"]))
    nsh = min(len(cases), ctx.scale(8, common.NCPU)) or 1
    load, members = [0] * nsh, [[] for _ in range(nsh)]
    for i in sorted(range(len(cases)), key=lambda i: -weight[i]):
        k = load.index(min(load))
        members[k].append(i)
        load[k] += weight[i]
    shards = []
    for k in range(nsh):
        if not members[k]:
            continue
        src = list(OMEN_HEADER)
        src.append("Definition cases : list omen_case := [")
        src.append(";\n".join(lits[i] for i in members[k]))
        src.append("].")
        src.append("Eval vm_compute in (ofailing check_case cases).")
        shards.append(("m%04d" % k, "\n".join(src)))
    return shards, members


def history_cases(ctx, sc, dist, steps=None):
    """Histories on ONE ruleset directory (impl_next.History): a ruleset is loaded, then its files change in place with the uuid
    kept (a terminal file re-weighted, values added / removed, a base structure dropped, the real edit_rules), or it is trained
    again under the same name, or all_lower is toggled, and it is loaded again in this process.  After EVERY load, against the files
    AS THEY ARE NOW: the group-probability oracle, and for each of the first pre-terminals the lines of create_guesses = the
    product of the groups the FILES define (consecutive lines of equal probability) = the product of the loaded groups.
    steps: the recorded steps of a replay (one history)."""
    import time
    vio, t0 = [], time.time()
    flagsets = [(False, False, "Grammar"), (False, True, "Grammar")]
    kinds = ["reweight-terminal"] * 3 + ["add-value"] * 2 + ["remove-value"] * 2 + ["retrain"] * 2 + ["flags", "same", "drop-base", "edit_rules"]

    def file_product(now, pt, scs):
        choices, i = [], 0
        while i < len(pt):
            t, ix = pt[i]
            fg = impl_next.file_groups(now, t, scs)
            if fg is None or ix >= len(fg):
                return "no group %d in the file of %s" % (ix, t)
            if t[0] == "A" and i + 1 < len(pt) and pt[i + 1][0][0] == "C":
                fm = impl_next.file_groups(now, pt[i + 1][0], scs)
                if fm is None or pt[i + 1][1] >= len(fm):
                    return "no group %d in the file of %s" % (pt[i + 1][1], pt[i + 1][0])
                choices.append(["".join(c if mc == "L" else c.upper() for c, mc in zip(w, m)) for w in fg[ix][1] for m in fm[pt[i + 1][1]][1]])
                i += 2
            else:
                choices.append(list(fg[ix][1]))
                i += 1
        return ["".join(x) for x in itertools.product(*choices)]
    dist["history_rule"] = ("histories of 2-3 loads of ONE ruleset directory in this process (terminal files re-weighted / values added / removed in "
                            "place with the uuid kept, re-trained under the same name, all_lower toggled, base structure dropped, real edit_rules): after "
                            "every load the group-probability oracle and create_guesses = product of the groups of the files as they are then")
    for hno in range(1 if steps is not None else ctx.scale(20, 400)):
        if steps is None:
            hg = impl_next.HistoryGen(ctx.rng, rulesets.gen_ruleset(ctx.rng, max_bases=3, max_len=4), flagsets[ctx.rng.random() < 0.2],
                                      kinds=kinds, flag_choices=flagsets, gen=lambda name: rulesets.gen_ruleset(ctx.rng, max_bases=3, max_len=4, name=name))
        h = impl_next.History(sc)
        n = len(steps) if steps is not None else ctx.rng.choice([2, 3, 3])
        done, bad = [], False
        dist["histories"] = dist.get("histories", 0) + 1
        for k in range(n):
            st = steps[k] if steps is not None else (hg.first() if k == 0 else hg.next(h.current))
            done.append(st)
            now = h.write(st)
            scs = bool(st.get("skip_case"))
            replay = {"ruleset": now, "skip_case": scs, "history": list(done), "step": k}
            where = "step %d (%s) of a history on one ruleset directory: " % (k, st.get("edit"))
            dist["history_loads"] = dist.get("history_loads", 0) + 1
            try:
                g = h.load(st)
            except Exception:
                continue
            v = group_prob_oracle(g, now)
            items, _, _, _ = impl_next.full_stream(g, cap=ctx.scale(40, 120), check_heap=False)
            for it in items:
                pt = it["pt"]
                if v or any(t[0] == "M" for t, _ in pt):
                    continue
                dist["history_preterminals"] = dist.get("history_preterminals", 0) + 1
                res = collect(g, pt, None)
                v += oracle(g, pt, [(None, res)], now["files"], dict(replay, pt=pt))
                want = file_product(now, pt, scs)
                if not v and res is not None and res[0] != want:
                    v.append({"sig": "C04:product:file", "what": "the guesses of %r are %r..., the groups of the ruleset files as they are now give %r..."
                              % (pt, res[0][:4], want if isinstance(want, str) else want[:4]), "replay": dict(replay, pt=pt)})
            for x in v:
                x["what"] = where + x["what"]
                x["replay"] = dict(replay, **{kk: vv for kk, vv in x["replay"].items() if kk in ("pt", "limit")})
            vio += v
            if v:
                break
    dist["history_seconds"] = round(time.time() - t0, 1)
    return vio


def slots_literal(g, pt):
    out = []
    for t, ix in pt:
        vals = g.grammar[t][ix]["values"]
        out.append("(%d%%nat, %s)" % (CAT.get(t[0], 2), common.clist([common.cstr(v) for v in vals]) if vals else "(@nil str)"))
    return common.clist(out)


def call_literal(limit, res):
    l = "None" if limit is None else "(Some %d%%nat)" % limit
    if res is None:
        return "(%s, None)" % l
    lines, n = res
    return "(%s, Some (%s, %d%%nat))" % (l, common.clist([common.cstr(s) for s in lines]) if lines else "(@nil str)", n)


def run(ctx):
    nrs = ctx.scale(45, 600)
    sc = common.scratch()
    vio, samples, shards = [], [], []
    dist = {"rulesets": 0, "preterminals": 0, "calls": 0, "with_mask": 0, "adjacent_alpha": 0, "markov": 0,
            "non_ascii": 0, "expanding_upper": 0, "limited_calls": 0, "malformed": 0}
    seen, nontrivial = set(), 0
    for r in range(nrs):
        rs = rulesets.gen_ruleset(ctx.rng, max_bases=3, max_len=4)
        if ctx.rng.random() < 0.3:
            # a word whose upper() expands, and non-BMP / spaces
            for k in list(rs["files"]):
                if k[0] == "A" and k[1:] == "3":
                    rs["files"][k] = [("aß ", rs["files"][k][0][1])] + rs["files"][k]
        malformed = ctx.rng.random() < 0.08
        if malformed:
            cn = [k for k in rs["files"] if k[0] == "C"]
            if cn:
                rs["grammar"] = [(cn[0] + "D1" if "D1" in rs["files"] else cn[0], rs["grammar"][0][1])] + rs["grammar"][1:]
        try:
            g = impl_next.load_grammar(rs, sc, False, ctx.rng.random() < 0.2, "Grammar")
        except Exception:
            continue
        items, _, capped, _ = impl_next.full_stream(g, cap=ctx.scale(80, 200), check_heap=False)
        dist["rulesets"] += 1
        vio += group_prob_oracle(g, rs)
        chars = set()
        omen_tbl = {}
        cases = []
        shard_bytes = 0
        for it in items:
            pt = it["pt"]
            is_m = any(t[0] == "M" for t, _ in pt)
            if is_m:
                lv = g.grammar[pt[0][0]][pt[0][1]]["values"][0]
                if lv not in omen_tbl:
                    omen_tbl[lv] = omen_level(g, lv)
                total = len(omen_tbl[lv])
            else:
                total = 1
                for t, ix in pt:
                    total *= len(g.grammar[t][ix]["values"])
            limits = [None, 1]
            if total > 1:
                limits += [total - 1, total, total + 1, ctx.rng.randint(1, total)]
            calls = [(l, collect(g, pt, l)) for l in dict.fromkeys(limits)]
            dist["preterminals"] += 1
            dist["calls"] += len(calls)
            dist["limited_calls"] += sum(1 for l, _ in calls if l)
            bad_pt = any(t[0] == "C" and (i == 0 or pt[i - 1][0][0] != "A") for i, (t, _) in enumerate(pt))
            replay = {"ruleset": rs, "pt": pt, "skip_case": False}
            if bad_pt:
                dist["malformed"] += 1
            elif is_m:
                dist["markov"] += 1
                levels = g.grammar[pt[0][0]][pt[0][1]]["values"]
                if len(levels) > 1:
                    dist["markov_multi_level_group"] = dist.get("markov_multi_level_group", 0) + 1
                full = []
                for lvx in levels:
                    if lvx not in omen_tbl:
                        omen_tbl[lvx] = omen_level(g, lvx)
                    full += omen_tbl[lvx]
                for l, res in calls:
                    exp = full if not l else full[:l]
                    if res is None or res[0] != exp or res[1] != len(exp):
                        kind = "markov-group" if len(levels) > 1 and res is not None and res[0] == (omen_tbl[lv] if not l else omen_tbl[lv][:l]) else "markov"
                        vio.append({"sig": "C04:" + kind, "what": "Markov pre-terminal for level(s) %s: output differs from the strings of its level(s) (limit %r): %d lines, expected %d"
                                    % (levels, l, -1 if res is None else len(res[0]), len(exp)), "replay": dict(replay, limit=l)})
                        break
            else:
                vio += oracle(g, pt, calls, rs["files"], replay)
            has_mask = any(t[0] == "C" and len(g.grammar[t][ix]["values"][0]) > 0 and
                           any("U" in m for m in g.grammar[t][ix]["values"]) for t, ix in pt)
            adj = sum(1 for t, _ in pt if t[0] == "A") >= 2
            nonascii = any(ord(c) > 127 for t, ix in pt for v in g.grammar[t][ix]["values"] for c in v)
            dist["with_mask"] += has_mask
            dist["adjacent_alpha"] += adj
            dist["non_ascii"] += nonascii
            for t, ix in pt:
                for v in g.grammar[t][ix]["values"]:
                    chars.update(v)
            key = json.dumps([[(t, g.grammar[t][ix]["values"]) for t, ix in pt]])
            if key not in seen:
                seen.add(key)
                if has_mask or adj or is_m or total > 1:
                    nontrivial += 1
            lit = "(%s,\n  %s)" % (slots_literal(g, pt), common.clist([call_literal(l, res) for l, res in calls]))
            # the model shard of one ruleset stays a literal coqc can read in minutes (DESIGN: no multi-MB literals); a pre-terminal
            # beyond the budget is still judged by the direct oracle above, only its model case is left out (counted)
            shard_bytes += len(lit)
            if shard_bytes > 4_000_000:
                dist["model_cases_left_out_for_size"] = dist.get("model_cases_left_out_for_size", 0) + 1
            else:
                cases.append(lit)
            if len(samples) < 3 and has_mask:
                samples.append({"pt": pt, "groups": [g.grammar[t][ix]["values"] for t, ix in pt],
                                "lines": calls[0][1][0][:6] if calls[0][1] else None})
        up = [(c, c.upper()) for c in sorted(chars) if c.upper() != c]
        dist["expanding_upper"] += sum(1 for c, u in up if len(u) != 1)
        if not cases:
            continue
        src = ["From Coq Require Import List NArith.", "From Pcfg Require Import Expand ExpandCorr.",
               "Import ListNotations.",
               "Definition up : list (N * str) := %s." % (common.clist(["(%d%%N, %s)" % (ord(c), common.cstr(u)) for c, u in up]) if up else "[]"),
               "Definition om : list (str * list str) := %s." % (
                   common.clist(["(%s, %s)" % (common.cstr(k), common.clist([common.cstr(s) for s in v]) if v else "(@nil str)")
                                 for k, v in omen_tbl.items()]) if omen_tbl else "[]"),
               "Definition cases : list (list (nat * list str) * list call) := [",
               ";\n".join(cases), "].",
               "Eval vm_compute in (failing (check_pt up om) cases)."]
        shards.append(("r%04d" % r, "\n".join(src)))
    # Markov pre-terminals of levels up to and above the maximum level, against an independent enumeration (after the
    # loop above, so that the rulesets it draws are the ones it always drew)
    from collections import Counter
    mdist = Counter()
    mvio, mcases, mev, mnt, msamples = markov_exploration(ctx, sc, mdist)
    vio += mvio
    samples += msamples
    nontrivial += mnt
    dist["calls"] += mev
    mshards, mmembers = markov_shards(ctx, mcases, mdist)
    dist.update(mdist)
    shards += mshards
    vio += history_cases(ctx, sc, dist)
    corr = []
    for name, idx, log in common.run_case_shards("C04", shards):
        if name[0] == "m":
            if idx is None:
                corr.append(("omen-level:" + name, False, log[-800:]))
            elif idx:
                k = int(name[1:])
                c = mcases[mmembers[k][idx[0]]]
                corr.append(("omen-level:" + name, False, "Omen.v's generator and create_guesses differ on the Markov pre-terminals (or the loaded "
                             "tables) of models %s; first model: %s" % ([mmembers[k][j] for j in idx],
                                                                       json.dumps({q: c["om"][q] for q in ("ngram", "ip", "cp", "ln")})[:600])))
            else:
                corr.append(("omen-level:" + name, True, ""))
            continue
        if idx is None:
            corr.append(("expand:" + name, False, log[-800:]))
        elif idx:
            corr.append(("expand:" + name, False, "model and create_guesses differ on pre-terminals %s of ruleset %s" % (idx, name)))
        else:
            corr.append(("expand:" + name, True, ""))
    rule = ("every pre-terminal (first <= 80 in probability order) of generated rulesets (values with spaces, non-ASCII, "
            "'ß' whose upper() expands, adjacent alpha words, alpha at start/middle/end, Markov pre-terminals, a few malformed "
            "structures starting with C), create_guesses called with limit None, 1, total-1, total, total+1 and a random inner "
            "value; non-trivial = has an upper-casing mask, two alpha words, a Markov level or more than one guess; distinct by "
            "the groups' values.  PLUS Markov pre-terminals against an independent enumerator: small OMEN models (ngram 2-4, 3-5 "
            "symbols, 1-3 generated lengths, sparse/dense) whose initial n-grams and/or lengths sit partly or all AT the maximum "
            "level (10) beside cheap ones, inside a generated ruleset whose pcfg_omen_prob.txt lists every level 0..13, the "
            "non-empty levels 20..22, up to 3 other non-empty higher ones and an empty one (some sharing a probability); every "
            "('M', i) expanded by create_guesses in random order on the grammar's ONE Optimizer (one level twice), unlimited and "
            "for half of them with a limit (1, total-1, total, total+1, random); oracle = omen_gen.brute_levels on the lines of the "
            "Omen files: multiset equality (nothing missing = exhaustion, nothing extra or twice), count == lines, limit N -> "
            "min(N, total) lines of the level; Coq: Omen.v's generator on the same files emits the same lists (OmenCorr.check_case); "
            "there non-trivial = more than one string or a non-empty level >= the maximum level, distinct by (tables, level, limit)")
    # second tie to the source (translator): name the broken equality if the build lost ExpandGenProofs
    import expand_tie
    corr.append(expand_tie.obligation())
    # ... and of the loader that builds the groups (group-probability clause)
    import loader_tie
    corr.append(loader_tie.obligation())
    # ... and of _load_terminals / _load_from_multiple_files, which decide which file becomes which group list
    import loader2_tie
    corr += loader2_tie.obligations("C04")
    return {"evaluations": dist["calls"], "distinct_nontrivial": nontrivial, "rule": rule, "samples": samples,
            "corr": corr, "violations": vio, "dist": dist}


def replay(ctx, data):
    inp = data.get("input") or {}
    if "ruleset" not in inp:
        return []
    sc = common.scratch()
    if inp.get("markov"):
        # a Markov pre-terminal against the brute-force enumeration of the model in the ruleset, after the recorded calls
        # on the same grammar object (one shared Optimizer)
        import omen_gen
        try:
            g = impl_next.load_grammar(inp["ruleset"], sc, False, False, "Grammar")
        except Exception as e:
            return [{"sig": "C04:markov-load", "what": "the ruleset does not load: %r" % (e,), "replay": inp}]
        if "pt" not in inp:
            return []
        buckets = omen_gen.brute_levels(inp["ruleset"]["omen"])
        for i, hl in inp.get("history") or []:
            collect_any(g, [("M", i)], hl)
        pt = [tuple(x) for x in inp["pt"]]
        l = inp.get("limit")
        levels = list(g.grammar["M"][pt[0][1]]["values"])
        base = {k: v for k, v in inp.items() if k != "limit"}
        return markov_oracle(buckets, levels, l, collect_any(g, pt, l), base)
    if inp.get("history"):
        return history_cases(ctx, sc, {}, steps=inp["history"])
    g = impl_next.load_grammar(inp["ruleset"], sc, False, inp.get("skip_case", False), "Grammar")
    if "pt" not in inp:
        return group_prob_oracle(g, inp["ruleset"])
    pt = [tuple(x) for x in inp["pt"]]
    l = inp.get("limit")
    if pt and pt[0][0][0] == "M":
        levels = g.grammar[pt[0][0]][pt[0][1]]["values"]
        full = []
        for lvx in levels:
            full += omen_level(g, lvx)
        exp = full if not l else full[:l]
        res = collect(g, pt, l)
        if res is None or res[0] != exp or res[1] != len(exp):
            return [{"sig": "C04:markov-group" if len(levels) > 1 else "C04:markov",
                     "what": "Markov pre-terminal for level(s) %s: %d lines, expected %d" % (levels, -1 if res is None else len(res[0]), len(exp)),
                     "replay": inp}]
        return []
    return oracle(g, pt, [(l, collect(g, pt, l))], inp["ruleset"]["files"], inp)
