"""C08: resume loses nothing, repeats only the tied group.
Implementation = PcfgQueue(pcfg, save_config) restore path of /repo; model =
restore_gen / resume_start_gen of Next.v with the comparison of
is_parent_around taken from the source (gen/Consts_gen.v).
Beside the random small rulesets (every cut point), harness/deep_restore.py adds sessions
saved far down two long terminal lists (save state built directly, restored queue and first
pops against the enumeration of the grid, a second save/restore cycle, scaled-down model cases)."""
import json
import os
import subprocess
from collections import Counter

import common
import deep_restore
import impl_next
import rulesets

ID = "C08"
TRUSTED = ["harness/translate_kernel.py: fail-closed ast translator of _find_prob / _are_you_my_child / find_children / "
           "is_parent_around / _recursive_restore_prob_order / initalize_base_structures (other methods of the class they call are inlined) into gen/Kernel_gen.v (accepted subset and "
           "conventions in its header; out-of-range subscripts = the parameters undef_prob/undef_node), and the runtime KernelRt.v it targets",
           __import__("queue_tie").TRUSTED,
           "CPython heapq contract", "str(float) / configparser.getfloat round trip is the identity (exercised on every saved probability)",
           "the saved probability is that of the popped, un-guessed pre-terminal (session loop, see C12)"]
ASSUMES = ["ruleset well-formed (wf)", "min_probability = 0.0 (PcfgQueue never changes it)"]
import cli_tie as _cli_tie
TRUSTED = TRUSTED + [_cli_tie.TRUSTED]


def cut_points(U):
    """first index of every run of equal probability"""
    out = []
    for k, it in enumerate(U):
        if k == 0 or U[k - 1]["prob"] != it["prob"]:
            out.append(k)
    return out


def oracle(U, k, B, m, replay):
    vio = []
    for i in range(1, len(B)):
        if B[i]["prob"] > B[i - 1]["prob"]:
            vio.append({"sig": "C08:order", "what": "resumed stream not in non-increasing order at %d" % i,
                        "replay": replay})
            break
    if B and max(b["prob"] for b in B) > m:
        vio.append({"sig": "C08:too-probable", "what": "resumed run emits a pre-terminal above the saved probability %r" % m,
                    "replay": replay})
    cu = Counter(impl_next.key(i) for i in U[k:])
    cb = Counter(impl_next.key(i) for i in B)
    missing = cu - cb
    if missing:
        vio.append({"sig": "C08:lost", "what": "cut at %d (m=%r): %d pre-terminal(s) of the uninterrupted run are never emitted after resume, e.g. %r"
                    % (k, m, sum(missing.values()), list(missing)[:2]), "replay": replay})
    extra = cb - cu
    bad = [e for e in extra.elements() if float.fromhex(e[2]) != m]
    if bad:
        vio.append({"sig": "C08:repeat-below-saved", "what": "cut at %d (m=%r): %d pre-terminal(s) with probability different from the saved one are emitted again, e.g. %r"
                    % (k, m, len(bad), bad[:2]), "replay": replay})
    return vio


def resume_stream(g, U, k, cap):
    """Real path: a queue popped k+1 times writes its state, a new queue restores it."""
    from lib_guesser.priority_queue import PcfgQueue
    import configparser
    q = PcfgQueue(g)
    for _ in range(k + 1):
        q.next()
    cfg = configparser.ConfigParser()
    cfg.add_section("guessing_info")
    q.update_save_config(cfg)
    m = cfg.getfloat("guessing_info", "max_probability")
    B, problems, capped, q2 = impl_next.full_stream(g, cfg, cap=cap, check_heap=False)
    return m, B, capped


def uuid_cli(ctx, sc_code, rs, name):
    """--load with a ruleset whose uuid changed must be refused with empty stdout."""
    vio = []
    rd = os.path.join(sc_code, "Rules", name)
    rulesets.write_ruleset(rs, rd)
    env = common.subenv()
    env["PYTHONPATH"] = sc_code
    common.run_cli([common.PY, "pcfg_guesser.py", "-r", name, "-s", "s_" + name, "-n", "3", "--skip_brute"], sc_code, env, 60)
    sav = os.path.join(sc_code, "s_" + name + ".sav")
    if not os.path.exists(sav):
        return [], False
    cfgp = os.path.join(rd, "config.ini")
    txt = open(cfgp).read().replace("uuid = " + rs["uuid"], "uuid = 00000000-0000-0000-0000-00000000beef")
    open(cfgp, "w").write(txt)
    rc2, out2, err2 = common.run_cli([common.PY, "pcfg_guesser.py", "-r", name, "-s", "s_" + name, "--load", "--skip_brute"], sc_code, env, 60)
    if out2.strip():
        vio.append({"sig": "C08:uuid-not-refused", "what": "session with a different ruleset uuid was resumed: stdout %r" % out2[:80],
                    "replay": {"ruleset": rs, "cli": "uuid"}})
    return vio, True


def main_history(ctx, code, rs, name):
    """The whole save / restore path of the real program (pcfg_guesser.main, harness/main_driver.py): a session quit while its
    k-th pre-terminal was popped, then --load.  Nothing the uninterrupted run emits may be lost, only pre-terminals at the saved
    probability may repeat, and flags typed together with --load do not change what the saved session resumes as."""
    from collections import Counter
    vio = []
    rd = os.path.join(code, "Rules", name)
    rulesets.write_ruleset(rs, rd)
    U = common.run_main_driver(code, ["-r", name, "-s", "mu_" + name])
    if U.get("error") or len(U["pops"]) < 3:
        return vio, 0
    k = ctx.rng.randint(1, max(1, min(len(U["pops"]) - 1, 12)))
    sess = "mh_" + name
    s1 = common.run_main_driver(code, ["-r", name, "-s", sess], quit_after_pops=k)
    rep = {"ruleset": rs, "cli": "main-history", "k": k}
    snap = {}
    for ext in (".sav", ".omn"):
        fn = os.path.join(code, sess + ext)
        if os.path.exists(fn):
            snap[fn] = open(fn, "rb").read()
    if s1.get("error") or not snap or len(s1["pops"]) != k:
        return vio, 0

    def restore():
        for fn, data in snap.items():
            with open(fn, "wb") as f:
                f.write(data)
    ref = common.run_main_driver(code, ["-r", name, "-s", sess, "--load"])
    if ref.get("error"):
        return [{"sig": "C08:resume-raised", "what": "--load failed: %s" % ref["error"], "replay": rep}], 1
    key = lambda p: (tuple(tuple(x) for x in p[0]), p[1])
    saved = s1["pops"][-1][1]
    done = Counter(key(p) for p in s1["pops"][:-1])
    res = Counter(key(p) for p in ref["pops"])
    full = Counter(key(p) for p in U["pops"])
    lost = full - (done + res)
    if lost:
        vio.append({"sig": "C08:lost", "what": "session quit at pre-terminal %d and resumed with --load: %d pre-terminal(s) of the uninterrupted run "
                    "are never emitted, e.g. %r" % (k, sum(lost.values()), list(lost)[:2]), "replay": rep})
    rep_ = (done + res) - full
    bad = [x for x in rep_ if x[1] != saved]
    if bad:
        vio.append({"sig": "C08:repeat-below-saved", "what": "repeated pre-terminals whose probability is not the saved one (%r): %r" % (saved, bad[:2]), "replay": rep})
    if any(p[1] > saved for p in ref["pops"]):
        vio.append({"sig": "C08:too-probable", "what": "the resumed run emits something more probable than the saved position %r" % saved, "replay": rep})
    runs = 3
    for extra in (["--skip_brute"], ["--all_lower"]):
        restore()
        got = common.run_main_driver(code, ["-r", name, "-s", sess, "--load"] + extra)
        runs += 1
        if got.get("error") or [key(p) for p in got["pops"]] != [key(p) for p in ref["pops"]] or got["out"] != ref["out"]:
            vio.append({"sig": "C08:lost:flags-on-load", "what": "the saved session resumed with `--load %s` does not emit what it emits with plain --load: "
                        "%d vs %d pre-terminals, %d vs %d guesses%s" % (" ".join(extra), len(got["pops"]), len(ref["pops"]), len(got["out"]), len(ref["out"]),
                                                                    "; error %s" % got["error"] if got.get("error") else ""), "replay": dict(rep, extra=extra)})
            break
    return vio, runs


def run(ctx):
    n = ctx.scale(60, 1000)
    cap = ctx.scale(120, 400)
    sc = common.scratch()
    cases, samples, vio = [], [], []
    seen, nontrivial = set(), 0
    dist = {"rulesets": 0, "cuts": 0, "cuts_with_tie_at_saved": 0, "restored_multi_parent": 0, "capped": 0,
            "two_cycle_histories": 0, "uuid_cli_runs": 0}
    for r in range(n):
        rs = rulesets.gen_ruleset(ctx.rng, max_bases=3, max_len=4)
        sb, scs, folder = ctx.rng.choice([(False, False, "Grammar"), (True, False, "Grammar"), (False, True, "Grammar")])
        try:
            g = impl_next.load_grammar(rs, sc, sb, scs, folder)
        except Exception:
            continue
        U, _, capped, _ = impl_next.full_stream(g, cap=cap, check_heap=False)
        if capped or not U:
            dist["capped"] += 1
            continue
        dist["rulesets"] += 1
        vm, table, bases = rulesets.model_tables(g)
        crs = impl_next.coq_rs(table, bases)
        probs = Counter(it["prob"] for it in U)
        for k in cut_points(U):
            m, B, bcap = resume_stream(g, U, k, cap * 3)
            if bcap:
                continue
            if m != U[k]["prob"]:
                vio.append({"sig": "C08:saved-prob", "what": "saved probability %r != popped probability %r" % (m, U[k]["prob"]),
                            "replay": {"ruleset": rs, "k": k}})
            replay = {"ruleset": rs, "skip_brute": sb, "skip_case": scs, "folder": folder, "k": k}
            # every cut inside the tie run
            kk = k
            while kk < len(U) and U[kk]["prob"] == m:
                dist["cuts"] += 1
                vio += oracle(U, kk, B, m, dict(replay, k=kk))
                kk += 1
            tie = probs[m] >= 2
            multi = any(sum(1 for _, i in b["pt"] if i > 0) >= 2 for b in B)
            dist["cuts_with_tie_at_saved"] += tie
            dist["restored_multi_parent"] += multi
            key = json.dumps([table, bases, m.hex()])
            if key not in seen:
                seen.add(key)
                if tie or multi:
                    nontrivial += 1
            cases.append((crs, common.cfloat(m), common.clist([impl_next.coq_obs(vm, it) for it in B]) if B else "(@nil obs)",
                          replay))
            if len(samples) < 3 and k > 0:
                samples.append({"bases": [(b["prob"], b["replacements"]) for b in g.base], "cut": k, "saved": m,
                                "resumed_first": [(i["pt"], i["prob"]) for i in B[:3]], "resumed_n": len(B), "run_n": len(U)})
        # a two-cycle history through real queue objects: resume, pop j, save, resume again
        if len(U) >= 4:
            k1 = ctx.rng.randrange(1, len(U) - 1)
            m1, B1, c1 = resume_stream(g, U, k1, cap * 3)
            if B1 and not c1:
                from lib_guesser.priority_queue import PcfgQueue
                import configparser
                j = ctx.rng.randrange(0, len(B1))
                cfg = impl_next.resume_config(m1)
                q = PcfgQueue(g, cfg)
                for _ in range(j + 1):
                    q.next()
                cfg2 = configparser.ConfigParser()
                cfg2.add_section("guessing_info")
                q.update_save_config(cfg2)
                B2, _, c2, _ = impl_next.full_stream(g, cfg2, cap=cap * 3, check_heap=False)
                if not c2:
                    dist["two_cycle_histories"] += 1
                    m2 = B1[j]["prob"]
                    # relative to the uninterrupted run: the second resume must still cover everything at or below m2
                    k2 = next(i for i, it in enumerate(U) if it["prob"] <= m2)
                    vio += oracle(U, k2, B2, m2, {"ruleset": rs, "skip_brute": sb, "skip_case": scs, "folder": folder,
                                                  "k": k1, "then": j})
    # uuid refusal through the real CLI
    code = common.copy_code_tree(common.scratch())
    for i in range(ctx.scale(2, 6)):
        rs = rulesets.gen_ruleset(ctx.rng, with_markov=False)
        rs["name"] = "U%d" % i
        v, ran = uuid_cli(ctx, code, rs, "U%d" % i)
        vio += v
        dist["uuid_cli_runs"] += ran
        rs2 = rulesets.gen_ruleset(ctx.rng, with_markov=True, max_bases=3, max_len=3)
        rs2["omen_prob"] = [("0", 0.3), ("1", 0.2)]
        rs2["name"] = "H%d" % i
        v, ran = main_history(ctx, code, rs2, "H%d" % i)
        vio += v
        dist["main_history_runs"] = dist.get("main_history_runs", 0) + ran
    # sessions saved deep into long terminal lists (harness/deep_restore.py): the save state is built directly
    vio += deep_restore.explore(ctx, ctx.scale(3, 6), ctx.scale(500, 1000), ctx.scale(1000, 1800), ctx.scale(500000, 1200000),
                                ctx.scale(2000, 8000), dist, samples)
    # ... and scaled-down instances of the same family, run to exhaustion, for the model
    for rs, g, m, B in deep_restore.small_cases(ctx, ctx.scale(4, 24)):
        vm, table, bases = rulesets.model_tables(g)
        cases.append((impl_next.coq_rs(table, bases), common.cfloat(m), common.clist([impl_next.coq_obs(vm, it) for it in B]),
                      {"deep": True, "ruleset": rs, "m": m.hex(), "pops": 10 ** 6, "then": 0}))
        dist["deep_model_cases"] = dist.get("deep_model_cases", 0) + 1
    # correspondence
    per = 60
    shards = []
    for s in range(0, len(cases), per):
        chunk = cases[s:s + per]
        src = ["From Coq Require Import List Floats.", "From Pcfg Require Import ProbAlg F64 Next NextSpec Corr.",
               "From PcfgGen Require Import Consts_gen.",
               "Import ListNotations.", "Open Scope float_scope.",
               "Definition cases : list (ruleset F64 * float * list obs) := ["]
        src.append(";\n".join("(%s, %s,\n %s)" % (a, b, c) for a, b, c, _ in chunk))
        src.append("].")
        src.append("Eval vm_compute in (failing (fun c => check_resume parent_around_strict (fst (fst c)) (snd (fst c)) (snd c)) cases).")
        shards.append(("s%04d" % (s // per), "\n".join(src)))
    corr = []
    for (name, idx, log), s in zip(common.run_case_shards("C08", shards), range(0, len(cases), per)):
        if idx is None:
            corr.append(("resume-run:" + name, False, log[-800:]))
        elif idx:
            corr.append(("resume-run:" + name, False, "model and implementation resumed streams differ for cases %s; first: %s"
                         % (idx, json.dumps(cases[s + idx[0]][3])[:600])))
        else:
            corr.append(("resume-run:" + name, True, ""))
    import kernel_tie
    corr.append(kernel_tie.obligation())
    import queue_tie
    corr.append(queue_tie.obligation())
    # translator tie of main / load_save (the resume decision, the uuid test, the save file name, what the restored session
    # is given) + its correspondence against the real functions
    import cli_tie
    corr += cli_tie.obligations("C08")
    c2, v2, st = cli_tie.run(ctx, "C08", n_saveload=ctx.scale(30, 200), n_main=ctx.scale(70, 500))
    corr += c2
    vio += v2
    dist.update(st)
    rule = ("random tie-rich rulesets (as C01, <= %d pre-terminals); for EVERY cut k the state a real PcfgQueue saves after "
            "its (k+1)-th pop is restored by a new PcfgQueue and run to exhaustion; oracle against the uninterrupted run for "
            "every k; plus two-cycle histories and the uuid refusal through the CLI, and generated command lines / save files / ruleset uuids run through the real main and load_save (recording stand-ins, harness/cli_tie.py) against the model; non-trivial = the saved probability is "
            "shared by >= 2 pre-terminals or a restored node has >= 2 parents; distinct by (tables, saved probability); plus the "
            "deep-restore family (not counted as non-trivial): 1-2 base structures over two variables of %d-%d groups, save state "
            "built directly at a cell far down both lists (restore walk deeper than the longest list + 100 in %d cases, deepest "
            "%d), restored queue and first pops compared with the enumeration of the whole grid, second save/restore cycle"
            % (cap, ctx.scale(500, 1000), ctx.scale(1000, 1800), dist.get("deep_walk_depth_over_longest_list", 0),
               dist.get("deep_max_walk_depth", 0)))
    return {"evaluations": dist["cuts"] + dist.get("deep_restores", 0), "distinct_nontrivial": nontrivial, "rule": rule, "samples": samples,
            "corr": corr, "violations": vio, "dist": dist}


def replay(ctx, data):
    inp = data.get("input") or {}
    if inp.get("deep"):
        return deep_restore.replay(ctx, inp)
    if inp.get("cli") in ("parse", "main", "saveload"):
        import cli_tie
        return cli_tie.replay(ctx, "C08", inp)
    if inp.get("cli") == "main-history":
        code = common.copy_code_tree(common.scratch())
        v, _ = main_history(ctx, code, inp["ruleset"], inp["ruleset"].get("name", "H0"))
        return v
    if "ruleset" not in inp or inp.get("cli"):
        return []
    sc = common.scratch()
    g = impl_next.load_grammar(inp["ruleset"], sc, inp.get("skip_brute", False), inp.get("skip_case", False),
                               inp.get("folder", "Grammar"))
    U, _, _, _ = impl_next.full_stream(g, cap=100000, check_heap=False)
    k = inp["k"]
    k0 = k
    while k0 > 0 and U[k0 - 1]["prob"] == U[k]["prob"]:
        k0 -= 1
    m, B, _ = resume_stream(g, U, k0, 10 ** 6)
    return oracle(U, k, B, m, inp)
