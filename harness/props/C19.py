"""C19: equivalent encodings of a training list train the same grammar.

Implementation = lib_trainer.trainer_file_input.TrainerFileInput.read_password
(in-process) and whole trainer runs (in-process run_trainer with the three
readers captured, `trainer.py` as a subprocess); model = Reader.read_text of
coq/theories/Reader.v on the text the codecs StreamReader decodes, with the
rejected code points of check_valid extracted from the source and the code
point classes probed from the running interpreter."""
import json
import os

import common
import trainer_io as T

ID = "C19"
TRUSTED = ["CPython codecs: decoding / encoding of utf-8, latin-1, cp1251, cp1252 incl. surrogateescape (the model starts from "
           "the decoded text; bytes.decode on every $HEX payload and the encodability of every character are tables computed "
           "by the interpreter per case)",
           "CPython str.splitlines / str.strip / int(): probed over all 0x110000 code points on every run (gen/Consts_gen.v) and "
           "compared with the model's lines_keep / lstrip / parse_int on generated strings",
           "codecs.StreamReader.readline returns the lines of str.splitlines(keepends=True) of the decoded stream (exercised on "
           "every generated file, incl. lines longer than its 72-character chunks)"]
TRUSTED.append("translator tie: the reading harness/translate_reader.py gives its accepted Python subset and the runtime "
               "coq/theories/ReaderRt.v (state-and-exception monad, exception classes, codecs readline as a list of lines, "
               "fuel for while); the interpreter's str methods are the model functions named in TextFile.v / Reader.v")
ASSUMES = ["C19_plain / C19_prefix: the password is accepted by check_valid, is not $HEX[...]-shaped (such passwords can only be "
           "written in hex form) and every code point the line iteration splits on is rejected by check_valid (side condition "
           "C19_linebreaks_rejected on the regenerated constants)",
           "C19_hex: decode (encode p) = Some p for the training encoding (codec round trip)",
           "C19_count_is_length: count prefixes are non-negative"]

ERR_KINDS = ("undecodable", "badhex", "badhex-utf8", "badhex-cp")


def variants_of(rng, entries, enc, junk):
    """name -> (bytes, prefixcount)"""
    j = [(i, raw, c) for i, raw, c, _ in junk]
    V = {
        "plain": (T.build_file(rng, entries, enc, "plain", b"\n", j), False),
        "hex": (T.build_file(rng, entries, enc, "hex", b"\n", j), False),
        "mixed": (T.build_file(rng, entries, enc, "mixed", "mixed", j), False),
        "plain-crlf": (T.build_file(rng, entries, enc, "plain", b"\r\n", j, final_eol=rng.random() < 0.7), False),
        "prefix": (T.build_file(rng, entries, enc, "prefix", rng.choice([b"\n", b"\r\n"]), j), True),
    }
    return V


def gen_junk(rng, enc, n_entries):
    out = []
    for raw, kind in T.junk_lines(rng, enc, False):
        out.append((rng.randint(0, n_entries), raw, rng.choice([1, 1, 2, 3]), kind))
    return out


def run_reader(sc, data, enc, prefix, tag="f"):
    p = os.path.join(sc, tag + ".txt")
    with open(p, "wb") as f:
        f.write(data)
    (seq, npw, nerr) = T.read_passwords(p, enc, prefix)
    return seq, npw, nerr, T.stream_text(p, enc)


_entry_cache = {}


def plain_ok(p):
    """Can the password be written as a plain line of a text file?"""
    return "\n" not in p and "\r" not in p and not T.is_hex_shaped(p)


def entry_oracle(sc, enc, p, cnt):
    """One logical password, alone in a file, in each of its forms: every form
    must read to the password `cnt` times (or to nothing when check_valid
    refuses it)."""
    key = (enc, p, cnt)
    if key in _entry_cache:
        return _entry_cache[key]
    from lib_trainer.trainer_file_input import check_valid
    lb = set(T.char_classes()["linebreak"])
    exp = [p] * cnt if check_valid(p) else []
    hx = T.hex_form(p, enc).encode("ascii")
    forms = {"hex": ((hx + b"\n") * cnt, False), "prefix-hex": (b"%d " % cnt + hx + b"\n", True)}
    if plain_ok(p):
        raw = p.encode(enc)
        forms["plain"] = ((raw + b"\n") * cnt, False)
        forms["plain-crlf"] = ((raw + b"\r\n") * cnt, False)
        forms["prefix"] = (b"  %d " % cnt + raw + b"\r\n", True)
    vio = []
    for name, (data, prefix) in forms.items():
        rep = {"enc": enc, "entries": [[p, cnt]], "junk": [], "variants": {name: [data.hex(), prefix]}, "variant": name}
        try:
            seq, npw, nerr, text = run_reader(sc, data, enc, prefix, "e")
        except Exception as e:      # noqa: BLE001
            vio.append({"sig": "C19:reader-aborts", "what": "read_password raised %r on %r (%s form)" % (e, p, name), "replay": rep})
            continue
        if seq == exp and nerr == 0 and npw == len(seq):
            continue
        inner = sorted({ord(ch) for ch in p if ord(ch) in lb})
        acc = sorted({ord(ch) for q in seq for ch in q if ord(ch) in lb})
        cps = ",".join("U+%04X" % c for c in (acc or inner))
        if acc:
            sig = "C19:accepted-linebreak:" + cps
            what = ("password %r (%s, %s form): the reader yields %r - it accepts %s, a code point its own line iteration splits on, "
                    "so the plain and the $HEX form of one password are read differently (expected %r)" % (p, enc, name, seq, cps, exp))
        elif inner and seq != exp:
            sig = "C19:tail-leak"
            what = ("line %r (%s, %s form) contains %s: the codec splits it, the part before is refused by check_valid but the tail "
                    "is trained as a password of its own: yielded %r, expected %r" % (p, enc, name, cps, seq, exp))
        else:
            sig = "C19:form-differs:" + name
            what = "password %r (%s): the %s form reads to %r (num_passwords %d, errors %d), expected %r" % (p, enc, name, seq, npw, nerr, exp)
        vio.append({"sig": sig, "what": what, "replay": rep})
    _entry_cache[key] = vio
    return vio


def family_oracle(sc, enc, entries, junk, variants, extra_err=None, with_entries=True):
    """The property on what the real reader did.  Reference = the logical list
    filtered by the real check_valid; every variant must yield exactly it, count
    exactly the undecodable lines and report num_passwords = what it yielded.
    Differences already explained by a single entry (entry_oracle) are reported
    there."""
    import codecs
    from lib_trainer.trainer_file_input import check_valid
    vio, runs = [], {}
    if with_entries:
        for p, c in entries:
            vio += entry_oracle(sc, enc, p, c)
    explained = bool(vio)
    ref = [p for p in T.flatten(entries) if check_valid(p)]
    base_err = sum(c for _, _, c, k in junk if k in ERR_KINDS)
    extra_err = extra_err or {}
    rep = {"enc": enc, "entries": [[p, c] for p, c in entries],
           "junk": [[i, raw.hex(), c, k] for i, raw, c, k in junk],
           "variants": {k: [v[0].hex(), v[1]] for k, v in variants.items()}, "extra_err": extra_err}
    for name, (data, prefix) in variants.items():
        exp_err = base_err + extra_err.get(name, 0)
        try:
            seq, npw, nerr, text = run_reader(sc, data, enc, prefix, "v_" + name.replace("-", "_"))
        except Exception as e:      # noqa: BLE001
            vio.append({"sig": "C19:reader-aborts", "what": "read_password raised %r on variant %s" % (e, name), "replay": rep})
            continue
        runs[name] = (seq, npw, nerr, text, data, prefix)
        truncated = codecs.decode(data, enc, "surrogateescape") != text
        if truncated and (seq != ref or nerr != exp_err):
            vio.append({"sig": "C19:truncated-tail",
                        "what": "the training file (%s, variant %s) ends inside a multi-byte sequence (last bytes %r): the undecodable "
                                "bytes are dropped silently, the rest of the last line is trained and no encoding error is counted: "
                                "yielded tail %r, num_encoding_errors %d, expected %d" % (enc, name, data[-6:], seq[-1:], nerr, exp_err),
                        "replay": dict(rep, variant=name)})
            continue
        if seq != ref and not explained:
            k = next((i for i in range(min(len(seq), len(ref))) if seq[i] != ref[i]), min(len(seq), len(ref)))
            vio.append({"sig": "C19:variant-differs:" + name,
                        "what": "variant %s (%s) reads to a different sequence at #%d: expected %r, yielded %r"
                                % (name, enc, k, ref[k:k + 2], seq[k:k + 2]), "replay": dict(rep, variant=name)})
        if nerr != exp_err:
            vio.append({"sig": "C19:error-count", "what": "variant %s (%s): %d undecodable line(s) but num_encoding_errors = %d"
                        % (name, enc, exp_err, nerr), "replay": dict(rep, variant=name)})
        if npw != len(seq):
            vio.append({"sig": "C19:num-passwords", "what": "variant %s: num_passwords %d != %d yielded" % (name, npw, len(seq)),
                        "replay": dict(rep, variant=name)})
    return vio, runs


def c_read_case(text, prefix, enc, seq, npw, nerr):
    dec = T.hex_decode_table(text, enc)
    return ("{| rc_text := %s; rc_prefix := %s; rc_dec := %s; rc_unenc := %s; rc_out := %s; rc_npw := %s; rc_nerr := %s |}"
            % (T.cs(text), common.cbool(prefix),
               T.clist(dec.items(), lambda kv: T.cpair(T.clist(kv[0], T.cN, "N"), T.copt(kv[1], T.cs)), "(list N * option str)"),
               T.clist(T.unencodable_chars(text, enc), T.cN, "N"), T.cstrs(seq), T.cZ(npw), T.cZ(nerr)))


def primitive_cases(rng, n):
    """The Python text primitives against the model, on strings around every
    probed special character."""
    from lib_trainer.trainer_file_input import check_valid
    C = T.char_classes()
    specials = sorted(set(C["linebreak"]) | set(C["whitespace"]) | set(C["rejected"]) | {0x2029, 0x2028, 0x85, 0xA0, 0x7F})
    pool = [chr(c) for c in specials] + list("ab1 \t_+-") + ["é", "٣", "５", "\U0001d7ce", "\udc80", "😀", "\r\n"]
    spl, rs, ls, ints, hexes, valids, ltx = [], [], [], [], [], [], []
    strings = set()
    for c in specials:
        for s in ("a" + chr(c) + "b", chr(c), chr(c) + "a", "a" + chr(c), "a" + chr(c) + chr(c) + "b", "\r" + chr(c), chr(c) + "\n"):
            strings.add(s)
    while len(strings) < n:
        strings.add("".join(rng.choice(pool) for _ in range(rng.randint(0, 9))))
    for s in sorted(strings):
        spl.append((T.cpair(T.cs(s), T.clist(s.splitlines(True), T.cs, "str")), {"splitlines": s}))
        rs.append((T.cpair(T.cs(s), T.cs(s.rstrip())), {"rstrip": s}))
        ls.append((T.cpair(T.cs(s), T.cs(s.lstrip())), {"lstrip": s}))
        valids.append((T.cpair(T.cs(s), common.cbool(check_valid(s))), {"check_valid": s}))
        # builtin open() line iteration
        import io
        ltx.append((T.cpair(T.cs(s), T.clist(list(io.StringIO(s, newline=None)), T.cs, "str")), {"lines_text": s}))
    ipool = list("0123456789") + list("0123456789") + ["_", "+", "-", " ", "\t", "\xa0", "\x1c", " ", "٣", "５", "\U0001d7d8",
                                                       "a", ".", "e", "x"]
    toks = set(["", "5", " 5", "5 ", "+5", "-5", "1_0", "_1", "1_", "1__0", "007", "٣٤", "\x1c5", "5\x1f", "\xa05 ", "+ 5", "--5"])
    while len(toks) < n:
        toks.add("".join(rng.choice(ipool) for _ in range(rng.randint(1, 6))))
    for s in sorted(toks):
        try:
            v = int(s)
        except ValueError:
            v = None
        ints.append((T.cpair(T.cs(s), T.copt(v, T.cZ)), {"int": s}))
    hpool = list("0123456789abcdefABCDEF") * 2 + [" ", "\t", "\n", "g", "é", "\x0b", "\x1c"]
    hs = set(["", "41", "4", "41 42", " 41", "41 ", "4 1", "zz", "é", "41\t42", "41\x0b42", "41\x1c42"])
    while len(hs) < n:
        hs.add("".join(rng.choice(hpool) for _ in range(rng.randint(0, 8))))
    for s in sorted(hs):
        try:
            v = list(bytes.fromhex(s))
        except ValueError:
            v = None
        hexes.append((T.cpair(T.cs(s), T.copt(v, lambda b: T.clist(b, T.cN, "N"))), {"fromhex": s}))
    return [("splitlines", "str * list str", "check_splitlines", spl), ("rstrip", "str * str", "check_rstrip", rs),
            ("lstrip", "str * str", "check_lstrip", ls), ("int", "str * option Z", "check_int", ints),
            ("fromhex", "str * option (list N)", "check_fromhex", hexes),
            ("checkvalid", "str * bool", "check_check_valid", valids),
            ("linestext", "str * list str", "check_lines_text", ltx)]


def tree_diff(a, b):
    a, b = T.normalise_tree(a), T.normalise_tree(b)
    out = []
    for k in sorted(set(a) | set(b)):
        if a.get(k) != b.get(k):
            out.append(k)
    return out


def run(ctx):
    rng = ctx.rng
    sc = common.scratch()
    n_fam = ctx.scale(70, 900)
    n_tri = ctx.scale(14, 120)
    n_cli = ctx.scale(3, 12)
    vio, samples = [], []
    dist = {"families": 0, "files_read": 0, "encodings": {}, "special_chars_seeded": 0, "junk_kinds": {},
            "trainer_triples": 0, "cli_runs": 0, "hex_lines": 0, "prefixed_files": 0, "three_pass_runs": 0,
            "collapse_pairs": 0}
    read_cases, seen, nontrivial = [], set(), 0
    seeded = set()

    # -------- minimal targeted probes (so that the first replay of a kind is the smallest)
    for tail in (b"caf\xc3", b"caf\xe2\x80"):
        ents = [("good", 1)]
        V0 = {"plain-truncated": (b"good\n" + tail, False)}
        v, runs = family_oracle(sc, "utf-8", ents, [], V0, {"plain-truncated": 1})
        vio += v
        for name, (seq, npw, nerr, text, data, prefix) in runs.items():
            read_cases.append((c_read_case(text, prefix, "utf-8", seq, npw, nerr),
                               {"enc": "utf-8", "variant": name, "bytes": data.hex(), "prefix": prefix}))
    # -------- families of equivalent files through the real reader
    for fam in range(n_fam):
        enc = T.ENCODINGS[fam % len(T.ENCODINGS)]
        spec = T.special_chars_for(enc, rng)
        pick = [c for c in spec if (enc, c) not in seeded][:3] or rng.sample(spec, 2)
        for c in pick:
            seeded.add((enc, c))
        entries = T.gen_entries(rng, enc, n_distinct=rng.randint(2, 9), specials=pick)
        if enc == "utf-8" and fam % 2 == 0:
            # U+FEFF is a character the filter accepts: a password that begins / ends with it or holds it inside is the same
            # password in the plain, the $HEX[] and the count-prefixed form, on the first line of the file and anywhere else
            fe = [("\ufeffsecret12", 3), ("pa\ufeffss1", 1), ("end9\ufeff", 2)]
            rng.shuffle(fe)
            entries = (fe[:1] + entries + fe[1:]) if fam % 4 == 0 else (entries[:1] + fe + entries[1:])
            dist["lists_with_feff_passwords"] = dist.get("lists_with_feff_passwords", 0) + 1
        junk = gen_junk(rng, enc, len(entries)) if rng.random() < 0.7 else []
        V = variants_of(rng, entries, enc, junk)
        extra_err = {}
        if enc == "utf-8" and rng.random() < 0.25:
            # a training file that ends inside a multi-byte sequence
            tail = rng.choice([b"tail\xc3", b"tail\xe2\x80", b"tail\xf0\x9f\x98"])
            V["plain-truncated"] = (V["plain"][0] + tail, False)
            extra_err = {"plain-truncated": 1}
        v, runs = family_oracle(sc, enc, entries, junk, V, extra_err)
        vio += v
        dist["families"] += 1
        dist["encodings"][enc] = dist["encodings"].get(enc, 0) + 1
        for _, _, _, k in junk:
            dist["junk_kinds"][k] = dist["junk_kinds"].get(k, 0) + 1
        for name, (seq, npw, nerr, text, data, prefix) in runs.items():
            dist["files_read"] += 1
            dist["hex_lines"] += data.count(b"$HEX[")
            dist["prefixed_files"] += prefix
            key = (enc, prefix, data)
            if key in seen:
                continue
            seen.add(key)
            if (b"$HEX[" in data or prefix or junk) and len(seq) > 0:
                nontrivial += 1
            read_cases.append((c_read_case(text, prefix, enc, seq, npw, nerr),
                               {"enc": enc, "variant": name, "bytes": data.hex(), "prefix": prefix}))
        if len(samples) < 4 and fam % 7 == 3:
            samples.append({"encoding": enc, "entries": entries[:5],
                            "prefix_file_head": V["prefix"][0][:120].decode(enc, "backslashreplace"),
                            "mixed_file_head": V["mixed"][0][:120].decode(enc, "backslashreplace"),
                            "yielded": runs.get("prefix", ([],))[0][:6]})
    dist["special_chars_seeded"] = len(seeded)

    # -------- whole trainer runs: plain repeated / mixed hex / count-prefixed
    code = None
    for tri in range(n_tri):
        enc = T.ENCODINGS[tri % len(T.ENCODINGS)]
        with_spec = tri % 3 == 0
        spec = T.special_chars_for(enc, rng)
        pick = rng.sample(spec, 2) if with_spec else []
        entries = T.gen_entries(rng, enc, n_distinct=rng.randint(4, 12), specials=pick)
        if enc == "utf-8" and tri % 8 == 0:
            entries = entries[:2] + [("\ufeffsecret12", 2), ("x\ufeffy12", 1)] + entries[2:]
        if not entries:
            continue
        junk = gen_junk(rng, enc, len(entries)) if tri % 2 == 0 else []
        mw_path = None
        if tri % 3 == 1:
            # --multiword: a plain word list (never count-prefixed) pre-trains the multiword detector; a password of the
            # training list splits only because of those words
            w1, w2 = rng.sample(["horse", "staple", "battery", "purple", "monkey", "dragon", "wizard"], 2)
            entries = list(entries) + [(w1 + w2, rng.randint(1, 2))]
            mw_path = os.path.join(sc, "mw%d.txt" % tri)
            with open(mw_path, "w", encoding=enc, newline="") as f:
                f.write("\n".join([w1, w2, "correct"]) + "\n")
            dist["with_multiword_list"] = dist.get("with_multiword_list", 0) + 1
        j = [(i, raw, c) for i, raw, c, _ in junk]
        cov = rng.choice([0.6, 0.6, 1.0, 0.25, 0.0])
        files = {"plain": (T.build_file(rng, entries, enc, "plain", b"\n", j), False),
                 "mixed-crlf": (T.build_file(rng, entries, enc, "mixed", b"\r\n", j), False),
                 "prefix": (T.build_file(rng, entries, enc, "prefix", b"\n", j), True)}
        rep = {"enc": enc, "coverage": cov, "entries": [[p, c] for p, c in entries],
               "files": {k: [v[0].hex(), v[1]] for k, v in files.items()},
               "multiword": open(mw_path, "rb").read().hex() if mw_path else None}
        recs = {}
        for name, (data, prefix) in files.items():
            p = os.path.join(sc, "t%d_%s.txt" % (tri, name.replace("-", "_")))
            with open(p, "wb") as f:
                f.write(data)
            recs[name] = T.train_inprocess(p, enc, os.path.join(sc, "T%d_%s" % (tri, name.replace("-", "_"))), coverage=cov,
                                           prefixcount=prefix, multiword=mw_path)
            rec = recs[name]
            if mw_path and rec.ok:
                mws = [list(r.verif_seq) for r in rec.multiword_reader]
                if mws != [[w1, w2, "correct"]]:
                    vio.append({"sig": "C19:multiword-list-misread", "what": "the --multiword word list was read as %r (%s file, prefixcount=%r)"
                                % (mws, name, prefix), "replay": rep})
            if rec.exc:
                vio.append({"sig": "C19:trainer-aborts", "what": "run_trainer raised %s on the %s file" % (rec.exc, name), "replay": rep})
            if len(rec.seqs) == 3:
                dist["three_pass_runs"] += 1
                if not (rec.seqs[0] == rec.seqs[1] == rec.seqs[2]):
                    vio.append({"sig": "C19:three-passes", "what": "the three training passes read different sequences (%s file): lengths %r"
                                % (name, [len(s) for s in rec.seqs]), "replay": rep})
                if rec.n != len(rec.seqs[0]):
                    vio.append({"sig": "C19:N", "what": "num_passwords of pass 1 = %d but %d passwords were yielded" % (rec.n, len(rec.seqs[0])),
                                "replay": rep})
        dist["trainer_triples"] += 1
        base = recs["plain"]
        for name in ("mixed-crlf", "prefix"):
            if recs[name].ok != base.ok:
                vio.append({"sig": "C19:ruleset-differs:" + name, "what": "training %s on the %s file but %s on the plain one"
                            % ("succeeds" if recs[name].ok else "fails", name, "succeeds" if base.ok else "fails"), "replay": rep})
                continue
            d = tree_diff(base.tree, recs[name].tree)
            if d:
                same_seq = base.seqs and recs[name].seqs and base.seqs[0] == recs[name].seqs[0]
                sig = "C19:ruleset-differs:" + name if same_seq else "C19:ruleset-differs-seq:" + name
                vio.append({"sig": sig, "what": "the ruleset trained from the %s file differs from the one trained from the plain repeated "
                            "lines in %s%s" % (name, d[:4], "" if same_seq else " (the readers already yield different sequences)"),
                            "replay": rep})
        # the real CLI on the same files (a few): must equal the in-process trees
        if tri < n_cli and base.ok:
            if code is None:
                code = common.copy_code_tree(common.scratch())
            for name in ("plain", "prefix"):
                data, prefix = files[name]
                p = os.path.join(sc, "t%d_%s.txt" % (tri, name))
                rc, so, se, tree = T.train_cli(code, p, "C%d_%s" % (tri, name), enc, cov, prefix, hashseed=str(7 + tri), multiword=mw_path)
                dist["cli_runs"] += 1
                d = tree_diff(recs[name].tree, tree)
                if d:
                    vio.append({"sig": "C19:cli-vs-inprocess", "what": "trainer.py (%s file) and the in-process run_trainer wrote different "
                                "rulesets: %s" % (name, d[:4]), "replay": rep})
        # collapsing in first-occurrence order (the theorem C19_collapse_first_occurrence): non-adjacent repeats
        if tri % 2 == 1:
            flat = T.flatten(entries)
            rng.shuffle(flat)
            order, cnt = [], {}
            for p in flat:
                if p not in cnt:
                    order.append(p)
                cnt[p] = cnt.get(p, 0) + 1
            collapsed = [(p, cnt[p]) for p in order]
            fa = T.build_file(rng, [(p, 1) for p in flat], enc, "hex", b"\n")
            fb = T.build_file(rng, collapsed, enc, "prefix", b"\n")
            pa, pb = os.path.join(sc, "c%d_a.txt" % tri), os.path.join(sc, "c%d_b.txt" % tri)
            open(pa, "wb").write(fa)
            open(pb, "wb").write(fb)
            ra = T.train_inprocess(pa, enc, os.path.join(sc, "CA%d" % tri), coverage=cov)
            rb = T.train_inprocess(pb, enc, os.path.join(sc, "CB%d" % tri), coverage=cov, prefixcount=True)
            dist["collapse_pairs"] += 1
            d = tree_diff(ra.tree, rb.tree) if ra.ok and rb.ok else (["<one run failed>"] if ra.ok != rb.ok else [])
            if d:
                vio.append({"sig": "C19:collapse-first-occurrence", "what": "collapsing scattered repeats into count-prefixed lines in "
                            "first-occurrence order changes the ruleset: %s" % d[:4],
                            "replay": {"enc": enc, "coverage": cov, "files": {"scattered": [fa.hex(), False], "collapsed": [fb.hex(), True]}}})

    # -------- correspondence
    groups = primitive_cases(rng, ctx.scale(120, 600))
    groups.append(("read", "read_case", "check_read", read_cases))
    corr, bad = T.run_shards("C19", groups, per=60)
    import reader_tie
    corr += reader_tie.obligations()
    import trainer_run_tie
    corr += trainer_run_tie.obligations(("equalities", "facts"))
    rule = ("logical lists (words, digits, walks, years, context strings, e-mails, sites, non-ASCII per encoding, spaces, $HEX "
            "look-alikes, every probed line-break / white-space character the encoding can represent, a sample of format "
            "characters, duplicates) x {plain, all-hex, per-line mixed, plain CRLF, count-prefixed} x {utf-8, latin-1, cp1251, "
            "cp1252} x junk lines (blank, TAB, control, undecodable, bad hex); oracle: every variant yields the logical list "
            "filtered by check_valid, counts the undecodable lines, num_passwords = yielded; whole trainer runs on "
            "plain / mixed-CRLF / prefixed files (every third with a --multiword pre-training list that makes one password split) diffed byte-wise modulo uuid+filename, three passes compared, CLI vs in-process; "
            "non-trivial = the file has a $HEX line, a count prefix or a junk line and yields something; distinct by file bytes")
    return {"evaluations": dist["files_read"] + 3 * dist["trainer_triples"], "distinct_nontrivial": nontrivial, "rule": rule,
            "samples": samples, "corr": corr, "violations": vio, "dist": dist}


def replay(ctx, data):
    inp = data.get("input") or {}
    sc = common.scratch()
    if "variants" in inp:
        entries = [(p, c) for p, c in inp["entries"]]
        junk = [(i, bytes.fromhex(raw), c, k) for i, raw, c, k in inp.get("junk", [])]
        V = {k: (bytes.fromhex(v[0]), v[1]) for k, v in inp["variants"].items()}
        if inp.get("variant"):
            V = {inp["variant"]: V[inp["variant"]]}
        if len(entries) == 1 and not junk and inp.get("variant") and not inp.get("extra_err"):
            return [x for x in entry_oracle(sc, inp["enc"], entries[0][0], entries[0][1])
                    if x["replay"].get("variant") == inp["variant"]]
        v, _ = family_oracle(sc, inp["enc"], entries, junk, V, inp.get("extra_err"), with_entries=False)
        return v
    if "files" in inp:
        trees, vio = {}, []
        mw = None
        if inp.get("multiword"):
            mw = os.path.join(sc, "r_mw.txt")
            open(mw, "wb").write(bytes.fromhex(inp["multiword"]))
        for k, (hx, prefix) in inp["files"].items():
            p = os.path.join(sc, "r_%s.txt" % k.replace("-", "_"))
            open(p, "wb").write(bytes.fromhex(hx))
            trees[k] = T.train_inprocess(p, inp["enc"], os.path.join(sc, "RR_" + k.replace("-", "_")), coverage=inp.get("coverage", 0.6),
                                         prefixcount=prefix, multiword=mw)
        names = list(trees)
        for k in names[1:]:
            d = tree_diff(trees[names[0]].tree, trees[k].tree)
            if d or trees[names[0]].ok != trees[k].ok:
                vio.append({"sig": "C19:ruleset-differs:" + k, "what": "rulesets differ in %s" % d[:4], "replay": inp})
        return vio
    return []
