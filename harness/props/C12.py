"""C12: the guess stream does not depend on thread timing or on stdin.
(a) in-process: the real CrackingSession.run + the real keypress thread under a
scheduler (harness/sched.py) for every single-event placement; model = Session.v.
(b) subprocess: the CLI under five stdin conditions."""
import json
import os
import pty
import subprocess

import common
import impl_next
import rulesets
import sched

ID = "C12"
TRUSTED = ["CPython thread scheduling, the GIL switch interval, OS stdin/tty semantics and interpreter shutdown with a blocked "
           "daemon thread are exercised (subprocess runs under 5 stdin conditions), not modelled",
           "the scheduler stand-ins (fake threading/time/input module attributes) deliver events only at main-loop steps",
           "translator tie of the session loop: harness/translate_session.py (ast -> Gallina, fail closed; accepted subset and what it does not model in its docstring) and the meaning coq/theories/SessionRt.v gives to `while`, break, try/except OSError, `if limit:` and `x is None`; every collaborator of CrackingSession.run / _save_session (queue, grammar object with quit flag and OMEN counters, save configuration and file, keyboard thread) is an operation on an abstract world: the translated text equals SessionModel.m_run for every world (C12_source_run_is_model), and the property theorems instantiate the world with the collaborators of Session.v (SessionModel.sworld) or constrain it by a contract (quiet_world)"]
ASSUMES = ["atomic steps of the main loop: one per pop+quit-check, one per emitted guess",
           "a 'q' line is two events (flag set, thread ended) that may be separated by main-loop steps"]

EV = {"status": "EvStatus", "help": "EvHelp", "q": "EvQuitFlag", "die": "EvThreadEnds",
      "eof": "EvThreadEnds", "err": "EvThreadEnds", "stderr_broken": "EvThreadEnds"}


def small_ruleset(rng):
    rs = rulesets.gen_ruleset(rng, with_markov=True, max_bases=2, max_len=2)
    rs["omen_prob"] = rng.choice([[("0", 0.4), ("1", 0.2)], [("1", 0.3)], [("0", 0.5)], [("1", 0.25), ("0", 0.25)]])
    return rs


def plans_for(T, rng, tier):
    plans = []
    for t in range(T):
        for k in ("status", "help", "eof", "err", "stderr_broken"):
            plans.append({t: [k]})
        plans.append({t: ["q", "die"]})
        for d in (1, 2, 5):
            plans.append({t: ["q"], t + d: ["die"]})
        plans.append({t: ["status", "status", "q", "die"]})
    if tier == "thorough":
        for _ in range(4 * T):
            a, b = sorted(rng.sample(range(T + 2), 2))
            plans.append({a: [rng.choice(["status", "help", "eof", "err"])], b: ["q", "die"]})
            plans.append({a: ["q"], b: ["die"]})
    return plans


def observe(g, plan, sc, ref):
    """run under [plan]; returns (observation tuple for the model, violations)"""
    r = sched.run_session(g, plan, sc)
    omn = r["omen_saves"]
    vio = []
    out, ref_out = r["out"], ref["out"]
    replay_plan = {str(k): v for k, v in plan.items()}
    if out != ref_out[:len(out)]:
        vio.append({"sig": "C12:altered", "what": "stream under schedule %r is not a prefix of the undisturbed stream" % plan, "plan": replay_plan})
    has_q = any("q" in v for v in plan.values())
    if not has_q and len(out) != len(ref_out):
        kinds = sorted(set(e for v in plan.values() for e in v))
        vio.append({"sig": "C12:truncated:" + "+".join(kinds), "what": "no quit was requested, yet schedule %r yields %d of %d guesses"
                    % (plan, len(out), len(ref_out)), "plan": replay_plan})
    if r.get("foreign"):
        vio.append({"sig": "C12:keyboard-thread-printed-guess", "what": "the keyboard/status thread called print_guess (%r) while handling %r: "
                    "status handling must not touch the guess output" % (r["foreign"][:2], plan), "plan": replay_plan})
    if r["stray_stdout"]:
        vio.append({"sig": "C12:stdout-noise", "what": "session wrote %r to stdout" % r["stray_stdout"][:80], "plan": replay_plan})
    saved = None
    finished = len(r["saves"]) < 2
    if len(r["saves"]) >= 2:
        saved = r["saves"][-1] - 1
        mp = r["save_config"].getfloat("guessing_info", "max_probability")
        if mp != r["pops"][saved]["prob"]:
            vio.append({"sig": "C12:saved-prob", "what": "saved probability %r is not that of the popped, un-guessed pre-terminal %r"
                        % (mp, r["pops"][saved]["prob"]), "plan": replay_plan})
    if has_q and len(out) < len(ref_out):
        if len(r["saves"]) < 2:
            last_pop_step = ref["steps"] - len(ref["per_item"][-1]) - 1
            qstep = min(t for t, v in plan.items() if "q" in v)
            if qstep > last_pop_step and ref["markov"][-1] and len(r["pops"]) == len(ref["pops"]):
                vio.append({"sig": "C12:quit-in-final-markov-level-not-saved",
                            "what": "quit delivered at step %d inside the FINAL pre-terminal (a Markov level): the level is cut after %d guesses, "
                                    "the next pop finds the queue empty and the run returns before the quit check, so nothing is saved"
                                    % (qstep, r["omen_guess_num"]), "plan": replay_plan})
            else:
                vio.append({"sig": "C12:quit-without-save", "what": "stopped early under %r without saving the session" % plan, "plan": replay_plan})
        else:
            # boundary: everything before the saved pre-terminal was emitted completely, except an interrupted Markov level
            full_before = sum(len(x) for x in ref["per_item"][:saved])
            if len(out) != full_before and not omn:
                vio.append({"sig": "C12:not-at-boundary", "what": "stopped inside a non-Markov pre-terminal under %r" % plan, "plan": replay_plan})
    om = omn[-1] if omn else None
    if any(e in ("status", "help", "q") for v_ in plan.values() for e in v_) and min(plan) % 3 == 0:
        # the same schedule on a session that has been guessing for more than two days / exactly one day already: the
        # status texts differ (day counts), the guess stream and stdout must not
        for pt_ in (200000, 86400 + 7):
            r3 = sched.run_session(g, plan, sc, past_time=pt_)
            if r3["out"] != out or r3["stray_stdout"]:
                vio.append({"sig": "C12:stdout-noise" if r3["stray_stdout"] else "C12:altered",
                            "what": "schedule %r on a session with %d s of earlier guessing time: %d guesses (expected %d), stdout noise %r"
                                    % (plan, pt_, len(r3["out"]), len(out), r3["stray_stdout"][:60]), "plan": dict(replay_plan, past_time=pt_)})
                break
    if 0 in plan and has_q:
        # the same events typed before anything else happened (delivered the moment the keyboard thread is started,
        # wherever the session starts it): a quit requested then is honoured like one requested before the first pop
        r2 = sched.run_session(g, plan, sc, early=True)
        if r2["out"] != out or len(r2["saves"]) != len(r["saves"]):
            vio.append({"sig": "C12:early-quit-lost", "what": "events %r delivered as soon as the keyboard thread exists: %d guesses and %d saves, "
                        "but %d guesses and %d saves when delivered before the first pop (a quit typed during start-up is dropped or handled "
                        "differently)" % (plan, len(r2["out"]), len(r2["saves"]), len(out), len(r["saves"])), "plan": dict(replay_plan, early=True)})
    return (plan, len(out), saved, om, finished), vio


def big_preterminal(ctx, sc, dist):
    vio = []
    n1, n2 = ctx.scale(620, 1100), 300       # 186000 / 330000 guesses in ONE pre-terminal
    rs = {"name": "BIG", "encoding": "utf-8", "uuid": "00000000-0000-0000-0000-000000000012", "files": {
        "A4": [("".join(chr(97 + (i // 26 ** k) % 26) for k in (3, 2, 1, 0)), 1.0 / n1) for i in range(n1)], "C4": [("LLLL", 1.0)],
        "D3": [("%03d" % i, 1.0 / n2) for i in range(n2)], "D1": [("7", 0.6), ("8", 0.4)]},
        "grammar": [("A4D3", 0.7), ("D1", 0.3)], "prince": [("D1", 1.0)], "omen": None, "omen_prob": [("1", 0.1)]}
    try:
        g = impl_next.load_grammar(rs, sc)
    except Exception as e:
        return [{"sig": "C12:raised", "what": "cannot load the big-pre-terminal ruleset: %r" % (e,), "replay": {"ruleset": rs}}]
    ref = sched.run_session(g, {}, sc)
    total = len(ref["out"])
    big = n1 * n2
    dist["big_preterminal_guesses"] = big
    for qstep in (1000, big * 3 // 5, big - 10):
        plan = {qstep: ["q", "die"]}
        r = sched.run_session(g, plan, sc)
        dist["big_preterminal_runs"] = dist.get("big_preterminal_runs", 0) + 1
        # steps: 1 per pop + 1 per guess; the big pre-terminal is popped first (probability 0.7/(n1*n2) vs 0.18: D1 first) - use the
        # reference boundaries instead of assuming the order
        bounds, c = [], 0
        from props.C04 import collect
        for it in ref["pops"]:
            res = collect(g, it["pt"], None)
            c += res[1] if res else 0
            bounds.append(c)
        n = len(r["out"])
        if r["out"] != ref["out"][:n] or (n not in bounds and n != total) or len(r["saves"]) < 2 and n < total:
            vio.append({"sig": "C12:not-at-boundary" if n not in bounds else "C12:altered",
                        "what": "quit requested at step %d inside a pre-terminal of %d guesses: the stream stopped after %d guesses "
                                "(pre-terminal boundaries %r, %d saves)" % (qstep, big, n, bounds, len(r["saves"])),
                        "replay": {"ruleset": rs, "plan": {str(qstep): ["q", "die"]}, "big": True}})
            break
    return vio


def reference(g, sc):
    r = sched.run_session(g, {}, sc)
    per_item, markov = [], []
    # split the output by pre-terminal using the real expansion counts
    from props.C04 import collect
    pos = 0
    for it in r["pops"]:
        res = collect(g, it["pt"], None)
        n = res[1] if res else 0
        per_item.append(r["out"][pos:pos + n])
        markov.append(it["pt"][0][0][0] == "M")
        pos += n
    return {"out": r["out"], "per_item": per_item, "markov": markov, "steps": r["steps"], "pops": r["pops"]}


def ev_literal(plan):
    return common.clist(["(%d%%nat, %s)" % (int(t), common.clist([EV[e] for e in es])) for t, es in sorted(plan.items(), key=lambda kv: int(kv[0]))]) \
        if plan else "(@nil (nat * list ev))"


def stdin_conditions(ctx, code, rs, name):
    """the CLI under tty / open pipe / pipe at EOF / /dev/null / closed stdin: same stdout"""
    rd = os.path.join(code, "Rules", name)
    rulesets.write_ruleset(rs, rd)
    env = common.subenv()
    env["PYTHONPATH"] = code
    args = [common.PY, "pcfg_guesser.py", "-r", name, "-s", "c12_" + name]
    rc, ref, _ = common.run_cli(args, code, env, 120)
    res = {"open_pipe": ref}
    r = subprocess.run(args, cwd=code, env=env, input=b"", stdout=subprocess.PIPE, stderr=subprocess.PIPE, timeout=120)
    res["pipe_at_eof"] = r.stdout
    r = subprocess.run(args, cwd=code, env=env, stdin=subprocess.DEVNULL, stdout=subprocess.PIPE, stderr=subprocess.PIPE, timeout=120)
    res["dev_null"] = r.stdout
    r = subprocess.run(["sh", "-c", 'exec "$@" <&-', "sh"] + args, cwd=code, env=env, stdout=subprocess.PIPE, stderr=subprocess.PIPE, timeout=120)
    res["closed"] = r.stdout
    m, s = pty.openpty()
    try:
        p = subprocess.Popen(args, cwd=code, env=env, stdin=s, stdout=subprocess.PIPE, stderr=subprocess.PIPE)
        out, _ = p.communicate(timeout=120)
        res["tty"] = out
    finally:
        os.close(m)
        os.close(s)
    vio = []
    for k, v in res.items():
        if v != ref:
            vio.append({"sig": "C12:stdin:" + k, "what": "stdin %s: %d stdout lines instead of %d" % (k, v.count(b"\n"), ref.count(b"\n")),
                        "replay": {"ruleset": rs, "stdin": k}})
    return vio, len(res)


def run(ctx):
    nrs = ctx.scale(5, 40)
    maxT = ctx.scale(40, 60)
    sc = common.scratch()
    vio, samples, shards, corr = [], [], [], []
    dist = {"rulesets": 0, "schedules": 0, "with_quit": 0, "inside_markov": 0, "steps_total": 0, "stdin_runs": 0}
    nontrivial, seen = 0, set()
    tries = 0
    while dist["rulesets"] < nrs and tries < nrs * 30:
        tries += 1
        rs = small_ruleset(ctx.rng)
        try:
            g = impl_next.load_grammar(rs, sc)
        except Exception:
            continue
        items, _, capped, _ = impl_next.full_stream(g, cap=30, check_heap=False)
        if capped or len(items) < 2:
            continue
        ref = reference(g, sc)
        T = ref["steps"]
        if T > maxT or T < 4 or not any(ref["markov"]):
            continue
        dist["rulesets"] += 1
        dist["steps_total"] += T
        pts_lit = common.clist(["(%s, %d%%nat)" % (common.cbool(m), len(x)) for m, x in zip(ref["markov"], ref["per_item"])])
        cases = []
        for plan in plans_for(T, ctx.rng, ctx.tier):
            obs, v = observe(g, plan, sc, ref)
            for x in v:
                x["replay"] = {"ruleset": rs, "plan": x.pop("plan")}
            vio += v
            dist["schedules"] += 1
            hq = any("q" in e for e in plan.values())
            dist["with_quit"] += hq
            t0 = min(plan)
            inside = 0 < t0 < T - 1
            key = (json.dumps(rs["grammar"]), json.dumps(sorted(plan.items())))
            if key not in seen:
                seen.add(key)
                nontrivial += inside
            plan_, n, saved, om, fin = obs
            if om:
                dist["inside_markov"] += 1
            cases.append("(%s, %d%%nat, %s, %s, %s)" % (
                ev_literal(plan_), n, common.coption(saved, lambda x: "%d%%nat" % x),
                common.coption(om, lambda x: "(%d%%nat, %d%%nat)" % x), common.cbool(fin)))
            if len(samples) < 4 and hq and om:
                samples.append({"pre-terminals (markov, #guesses)": list(zip(ref["markov"], [len(x) for x in ref["per_item"]])),
                                "schedule": {str(k): v2 for k, v2 in plan.items()}, "guesses_written": n,
                                "saved_at": saved, "markov_cut": om})
        src = ["From Coq Require Import List Arith Bool.", "From Pcfg Require Import Session SessionCorr.",
               "From PcfgGen Require Import Consts_gen.", "Import ListNotations.",
               "Definition pts := mk_pts %s 0 0." % pts_lit,
               "Definition runs : list obs_run := [", ";\n".join(cases), "].",
               "Eval vm_compute in (failing (check_run session_polls_quit_flag pts) runs)."]
        shards.append(("r%03d" % dist["rulesets"], "\n".join(src)))
    for name, idx, log in common.run_case_shards("C12", shards):
        if idx is None:
            corr.append(("session:" + name, False, log[-800:]))
        elif idx:
            corr.append(("session:" + name, False, "model and implementation outcomes differ for schedules %s" % idx[:10]))
        else:
            corr.append(("session:" + name, True, ""))
    # (a') true concurrency: status requests back to back from a second thread while the real print_guess writes to
    # stdout (runtime test: it can only catch a race it happens to hit)
    storms = 0
    for i in range(40):
        if storms >= ctx.scale(2, 6):
            break
        rs = rulesets.gen_ruleset(ctx.rng, with_markov=False, max_bases=4, max_len=4)
        try:
            g = impl_next.load_grammar(rs, sc)
        except Exception:
            continue
        items, _, capped, _ = impl_next.full_stream(g, cap=3000, check_heap=False)
        if capped:
            continue
        ref = sched.run_session(g, {}, sc)["out"]
        if len(ref) < 1500 or len(ref) > 60000:
            continue
        storms += 1
        for rep in range(ctx.scale(4, 10)):
            got = sched.run_session(g, {}, sc, storm=True)["out"]
            dist["storm_runs"] = dist.get("storm_runs", 0) + 1
            if got != ref:
                vio.append({"sig": "C12:status-storm", "what": "status requests from the keyboard thread running concurrently with guess generation "
                            "changed stdout: %d lines instead of %d" % (len(got), len(ref)), "replay": {"ruleset": rs, "storm": True}})
                break
    # (a'') one enormous non-Markov pre-terminal (300 x 300 equally probable values): a quit requested deep inside it stops at
    # its end, not inside, and the session is saved
    vio += big_preterminal(ctx, sc, dist)
    # (b) stdin conditions through the real CLI
    code = common.copy_code_tree(common.scratch())
    for i in range(ctx.scale(2, 6)):
        rs = small_ruleset(ctx.rng)
        rs["name"] = "S%d" % i
        v, n = stdin_conditions(ctx, code, rs, "S%d" % i)
        vio += v
        dist["stdin_runs"] += n
    rule = ("small rulesets with Markov levels (<= %d atomic steps); EVERY single placement of status / help / EOF / input error / "
            "broken stderr / quit (flag and thread end together or 1, 2, 5 steps apart) at every atomic step, delivered to the real "
            "keypress thread by a scheduler; thorough adds random pairs; plus the CLI under tty / open pipe / pipe at EOF / /dev/null / "
            "closed stdin; non-trivial = the event lands strictly inside the run; distinct by (ruleset, schedule)" % maxT)
    # translator tie of the session loop (CrackingSession.run = SessionModel.m_run = Session.run_session)
    import session_tie
    corr.append(session_tie.obligation("session"))
    return {"evaluations": dist["schedules"] + dist["stdin_runs"], "distinct_nontrivial": nontrivial, "rule": rule,
            "samples": samples, "corr": corr, "violations": vio, "dist": dist}


def replay(ctx, data):
    inp = data.get("input") or {}
    if "ruleset" not in inp:
        return []
    rs = inp["ruleset"]
    if inp.get("storm"):
        sc = common.scratch()
        g = impl_next.load_grammar(rs, sc)
        ref = sched.run_session(g, {}, sc)["out"]
        for rep in range(8):
            got = sched.run_session(g, {}, sc, storm=True)["out"]
            if got != ref:
                return [{"sig": "C12:status-storm", "what": "%d lines instead of %d" % (len(got), len(ref)), "replay": inp}]
        return []
    if "stdin" in inp:
        code = common.copy_code_tree(common.scratch())
        v, _ = stdin_conditions(ctx, code, rs, rs.get("name", "S0"))
        return v
    sc = common.scratch()
    g = impl_next.load_grammar(rs, sc)
    ref = reference(g, sc)
    plan = {int(k): v for k, v in inp["plan"].items() if k not in ("early", "past_time")}
    obs, v = observe(g, plan, sc, ref)
    for x in v:
        x["replay"] = {"ruleset": rs, "plan": x.pop("plan")}
    return v
