"""C12: the guess stream does not depend on thread timing or on stdin.
(a) in-process: the real CrackingSession.run + the real keypress thread under a
scheduler (harness/sched.py) for every single-event placement; model = Session.v.
The same schedules on rulesets with extreme probabilities (subnormal, 0.0, 1.0,
products that underflow for the later pre-terminals) and on RESUMED sessions
(an earlier run was quit inside a Markov level or at a pop, the save file and
the .omn are loaded; model = SessionModel.w_run with load_session = true).
(b) subprocess: the CLI under five stdin conditions."""
import configparser
import json
import os
import pty
import re
import subprocess

import common
import impl_next
import rulesets
import sched

ID = "C12"
TRUSTED = ["CPython thread scheduling, the GIL switch interval, OS stdin/tty semantics and interpreter shutdown with a blocked "
           "daemon thread are exercised (subprocess runs under 5 stdin conditions), not modelled",
           "the scheduler stand-ins (fake threading/time/input module attributes) deliver events only at main-loop steps",
           "translator tie of the session loop: harness/translate_session.py (ast -> Gallina, fail closed; accepted subset and what it does not model in its docstring) and the meaning coq/theories/SessionRt.v gives to `while`, break, try/except OSError, `if limit:` and `x is None`; every collaborator of CrackingSession.run / _save_session (queue, grammar object with quit flag and OMEN counters, save configuration and file, keyboard thread) is an operation on an abstract world: the translated text equals SessionModel.m_run for every world (C12_source_run_is_model), and the property theorems instantiate the world with the collaborators of Session.v (SessionModel.sworld) or constrain it by a contract (quiet_world)"]
ASSUMES = ["atomic steps of the main loop: one per pop+quit-check, one per emitted guess",
           "a 'q' line is two events (flag set, thread ended) that may be separated by main-loop steps",
           "a resumed session: one atomic step per guess of the restored Markov level (written before the first pop, the flag read "
           "after each), then as a new session; the model of the resumed schedules is SessionModel.w_run with load_session = true "
           "(SessionResumedCorr.check_resumed), no property theorem is stated about it beyond the translator tie"]

EV = {"status": "EvStatus", "help": "EvHelp", "q": "EvQuitFlag", "die": "EvThreadEnds",
      "eof": "EvThreadEnds", "err": "EvThreadEnds", "stderr_broken": "EvThreadEnds"}


def small_ruleset(rng):
    rs = rulesets.gen_ruleset(rng, with_markov=True, max_bases=2, max_len=2)
    rs["omen_prob"] = rng.choice([[("0", 0.4), ("1", 0.2)], [("1", 0.3)], [("0", 0.5)], [("1", 0.25), ("0", 0.25)]])
    return rs


SUBNORMAL = [1e-315, 5e-324, 1e-310, 2e-308, 1.5e-323, 3e-320]      # 0 < p < 2.2250738585072014e-308
EXTREME_KINDS = ("sub-base", "sub-term", "sub-omen", "under-later", "sub-all", "tiny", "zero", "one")
SMALLEST_NORMAL = 2.2250738585072014e-308


def prob_class(p):
    if p == 0.0:
        return "zero"
    if p < SMALLEST_NORMAL:
        return "subnormal"
    if p < 1e-290:
        return "tiny"
    if p == 1.0:
        return "one"
    return "ordinary"


def _remap_tail(lines, new_tail, first=False):
    """the lowest len(new_tail) distinct probabilities of a (value, prob) list replaced by new_tail (most probable first); equal
    lines stay equal; the list is kept sorted by probability, descending (the order the trainer writes)"""
    distinct = sorted(set(p for _, p in lines), reverse=True)
    new_tail = list(new_tail)[:len(distinct)] if first else list(new_tail)[-len(distinct):]
    m = dict(zip(distinct[len(distinct) - len(new_tail):], new_tail))
    return sorted(((v, m.get(p, p)) for v, p in lines), key=lambda vp: -vp[1])


def extreme_ruleset(rng, kind):
    """a small ruleset whose text files hold probabilities at the edges of the float range: the probability of a pre-terminal
    (base structure x terminals) is subnormal, exactly 0.0 (underflow), exactly 1.0 or a tiny normal number - for all
    pre-terminals or only for the later ones of the run"""
    rs = small_ruleset(rng)
    rs["extreme"] = kind
    used = sorted(set(re.findall(r"[A-Z]\d+", "".join(b for b, _ in rs["grammar"]))) & set(rs["files"]))
    sub = lambda: rng.choice(SUBNORMAL)
    desc = lambda n, f: sorted((f() for _ in range(n)), reverse=True)
    if kind == "sub-base":
        rs["grammar"] = _remap_tail(rs["grammar"], desc(rng.randint(1, 2), sub))
    elif kind == "sub-term" and used:
        k = rng.choice(used)
        rs["files"][k] = _remap_tail(rs["files"][k], desc(rng.randint(1, 2), sub))
    elif kind == "sub-omen" or kind == "sub-term":
        rs["omen_prob"] = _remap_tail(rs["omen_prob"], desc(len(rs["omen_prob"]), sub))
        if rng.random() < 0.5:      # the Markov base structure itself certain: the level's probability is the subnormal
            rs["grammar"] = sorted(((b, 1.0 if b == "M" else p) for b, p in rs["grammar"]), key=lambda bp: -bp[1])
    elif kind == "under-later":
        # 1e-160 x (1e-140, 1e-155, 1e-164): a normal product, then a subnormal one, then 0.0
        rs["grammar"] = [(b, 1e-160 / (1 + i)) for i, (b, _) in enumerate(rs["grammar"])]
        for k in used:
            rs["files"][k] = _remap_tail(rs["files"][k], [1e-140, 1e-155, 1e-164], first=True)
        rs["omen_prob"] = _remap_tail(rs["omen_prob"], [1e-140, 1e-155, 1e-164], first=True)
    elif kind == "sub-all":
        rs["grammar"] = _remap_tail(rs["grammar"], desc(len(rs["grammar"]), sub))
    elif kind == "tiny":
        rs["grammar"] = _remap_tail(rs["grammar"], [1e-300 / (1 + i) for i in range(len(rs["grammar"]))])
    elif kind == "zero":
        rs["grammar"] = _remap_tail(rs["grammar"], [0.0])
        if used and rng.random() < 0.5:
            k = rng.choice(used)
            rs["files"][k] = _remap_tail(rs["files"][k], [0.0])
    elif kind == "one":
        rs["grammar"] = [(b, 1.0) for b, _ in rs["grammar"]]
        for k in list(rs["files"]):
            rs["files"][k] = [(v, 1.0) for v, _ in rs["files"][k]]
        rs["omen_prob"] = [(l, 1.0) for l, _ in rs["omen_prob"]]
    return rs


def plans_for(T, rng, tier, positions=None, head=0):
    """positions: the steps at which single events are placed (None: every step of the run); head: the first [head] steps are
    the remainder of a restored Markov level (thorough: half of the random pairs start there)"""
    plans = []
    for t in (range(T) if positions is None else positions):
        for k in ("status", "help", "eof", "err", "stderr_broken"):
            plans.append({t: [k]})
        plans.append({t: ["q", "die"]})
        for d in (1, 2, 5):
            plans.append({t: ["q"], t + d: ["die"]})
        plans.append({t: ["status", "status", "q", "die"]})
    if tier == "thorough":
        for _ in range(4 * (T if positions is None else len(positions))):
            a, b = sorted(rng.sample(range(T + 2), 2))
            if head and rng.random() < 0.5:
                a = rng.randrange(head)
                b = rng.randrange(a + 1, T + 2)
            plans.append({a: [rng.choice(["status", "help", "eof", "err"])], b: ["q", "die"]})
            plans.append({a: ["q"], b: ["die"]})
    return plans


def expected_stop(ref, tq):
    """'q' is handled by a listening keyboard thread just before atomic step tq of the run whose undisturbed form is [ref]:
    (number of guesses written when the run stops, index of the pre-terminal whose pop sees the request - the session is
    saved there - or None when no pop follows).  Steps: the guesses of a restored Markov level (a resumed session), then
    per pre-terminal one pop + quit check and one step per guess; a Markov level reads the flag after each guess."""
    h = ref["head"]
    items = list(zip(ref["markov"], ref["per_item"]))
    if tq < h:
        return tq + 1, (0 if items else None)
    t, n = h, h
    for i, (m, gs) in enumerate(items):
        if tq == t:
            return n, i
        k = len(gs)
        if tq <= t + k:
            return (n + (tq - t) if m else n + k), (i + 1 if i + 1 < len(items) else None)
        t += 1 + k
        n += k
    return n, None


def live_quit_step(plan):
    """the step at which 'q' reaches a keyboard thread that is still listening (no EOF / input error / broken stderr / earlier
    quit before it), or None"""
    for t in sorted(plan):
        for e in plan[t]:
            if e == "q":
                return t
            if e in ("eof", "err", "stderr_broken"):
                return None
    return None


def observe(g, plan, sc, ref, start=None):
    """run under [plan]; returns (observation tuple for the model, violations).
    start: None = a new session; otherwise a function that puts the save file / .omn of the earlier run back and returns
    the keyword arguments of sched.run_session for a session RESUMED from them."""
    resumed = start is not None
    base = 0 if resumed else 1          # saves a run makes without being asked to (the initial save of a new session)
    r = sched.run_session(g, plan, sc, **(start() if resumed else {}))
    omn = r["omen_saves"]
    vio = []
    out, ref_out = r["out"], ref["out"]
    replay_plan = {str(k): v for k, v in plan.items()}
    if out != ref_out[:len(out)]:
        vio.append({"sig": "C12:altered", "what": "stream under schedule %r is not a prefix of the undisturbed stream" % plan, "plan": replay_plan})
    has_q = any("q" in v for v in plan.values())
    if not has_q and len(out) != len(ref_out):
        kinds = sorted(set(e for v in plan.values() for e in v))
        vio.append({"sig": "C12:truncated:" + "+".join(kinds), "what": "no quit was requested, yet schedule %r yields %d of %d guesses"
                    % (plan, len(out), len(ref_out)), "plan": replay_plan})
    if r.get("foreign"):
        vio.append({"sig": "C12:keyboard-thread-printed-guess", "what": "the keyboard/status thread called print_guess (%r) while handling %r: "
                    "status handling must not touch the guess output" % (r["foreign"][:2], plan), "plan": replay_plan})
    if r["stray_stdout"]:
        vio.append({"sig": "C12:stdout-noise", "what": "session wrote %r to stdout" % r["stray_stdout"][:80], "plan": replay_plan})
    # the keyboard thread must survive every status / help request: once it is gone (keypress() swallows whatever the report
    # raised and returns) no later 'q' can reach the session, so when the stream stops depends on an earlier status request
    for step, ev, tail, item in r["thread_died"][:1]:
        vio.append({"sig": "C12:thread-died:" + ev, "what": "the keyboard thread ended while handling the %s request delivered at step %d "
                    "of a %s session (status item %s; its answer ends with %r): every later quit request of this run is lost"
                    % (ev, step, "resumed" if resumed else "new", item, tail), "plan": replay_plan})
    for step, ev, tail, item in r["lost_quits"][:1]:
        vio.append({"sig": "C12:quit-lost", "what": "'q' typed at step %d to a listening keyboard thread (%s session, status item %s): the thread "
                    "handled the line but the quit flag was not set (its answer ends with %r)"
                    % (step, "resumed" if resumed else "new", item, tail), "plan": replay_plan})
    tq = live_quit_step(plan)
    if tq is not None and not r["lost_quits"]:
        n_exp, sv_exp = expected_stop(ref, tq)
        if len(out) > n_exp:
            vio.append({"sig": "C12:quit-lost", "what": "quit requested at step %d of a %s session under %r: the run must stop after %d guesses "
                        "(next pre-terminal boundary / next Markov guess) but wrote %d of %d, %d save(s)"
                        % (tq, "resumed" if resumed else "new", plan, n_exp, len(out), len(ref_out), len(r["saves"])), "plan": replay_plan})
    saved = None
    finished = len(r["saves"]) <= base
    if len(r["saves"]) > base:
        saved = r["saves"][-1] - 1
        mp = r["save_config"].getfloat("guessing_info", "max_probability")
        if mp != r["pops"][saved]["prob"]:
            vio.append({"sig": "C12:saved-prob", "what": "saved probability %r is not that of the popped, un-guessed pre-terminal %r"
                        % (mp, r["pops"][saved]["prob"]), "plan": replay_plan})
    if has_q and len(out) < len(ref_out):
        if len(r["saves"]) <= base:
            last_pop_step = (ref["steps"] - len(ref["per_item"][-1]) - 1) if ref["per_item"] else -1
            last_markov = ref["markov"][-1] if ref["markov"] else ref["head"] > 0
            qstep = min(t for t, v in plan.items() if "q" in v)
            if qstep > last_pop_step and last_markov and len(r["pops"]) == len(ref["pops"]):
                vio.append({"sig": "C12:quit-in-final-markov-level-not-saved",
                            "what": "quit delivered at step %d inside the FINAL pre-terminal (a Markov level): the level is cut after %d guesses, "
                                    "the next pop finds the queue empty and the run returns before the quit check, so nothing is saved"
                                    % (qstep, r["omen_guess_num"]), "plan": replay_plan})
            else:
                vio.append({"sig": "C12:quit-without-save", "what": "stopped early under %r without saving the session" % plan, "plan": replay_plan})
        else:
            # boundary: everything before the saved pre-terminal was emitted completely, except an interrupted Markov level
            full_before = ref["head"] + sum(len(x) for x in ref["per_item"][:saved])
            if len(out) != full_before and not omn:
                vio.append({"sig": "C12:not-at-boundary", "what": "stopped inside a non-Markov pre-terminal under %r" % plan, "plan": replay_plan})
    om = omn[-1] if omn else None
    if not resumed and any(e in ("status", "help", "q") for v_ in plan.values() for e in v_) and min(plan) % 3 == 0:
        # the same schedule on a session that has been guessing for more than two days / exactly one day already: the
        # status texts differ (day counts), the guess stream and stdout must not
        for pt_ in (200000, 86400 + 7):
            r3 = sched.run_session(g, plan, sc, past_time=pt_)
            if r3["out"] != out or r3["stray_stdout"]:
                vio.append({"sig": "C12:stdout-noise" if r3["stray_stdout"] else "C12:altered",
                            "what": "schedule %r on a session with %d s of earlier guessing time: %d guesses (expected %d), stdout noise %r"
                                    % (plan, pt_, len(r3["out"]), len(out), r3["stray_stdout"][:60]), "plan": dict(replay_plan, past_time=pt_)})
                break
    if 0 in plan and has_q:
        # the same events typed before anything else happened (delivered the moment the keyboard thread is started,
        # wherever the session starts it): a quit requested then is honoured like one requested before the first pop
        # (a resumed session: before the first guess of the restored level is written)
        r2 = sched.run_session(g, plan, sc, early=True, **(start() if resumed else {}))
        if r2["out"] != out or len(r2["saves"]) != len(r["saves"]):
            vio.append({"sig": "C12:early-quit-lost", "what": "events %r delivered as soon as the keyboard thread exists: %d guesses and %d saves, "
                        "but %d guesses and %d saves when delivered before the first pop (a quit typed during start-up is dropped or handled "
                        "differently)" % (plan, len(r2["out"]), len(r2["saves"]), len(out), len(r["saves"])), "plan": dict(replay_plan, early=True)})
    cfg = r["save_config"]
    cfg_omen = cfg.getint("guessing_info", "omen_guess_number") if cfg.has_option("guessing_info", "omen_guess_number") else None
    extra = {"cfg_omen": cfg_omen, "reports": r["reports"]}
    return (plan, len(out), saved, om, finished, extra), vio


def big_preterminal(ctx, sc, dist):
    vio = []
    n1, n2 = ctx.scale(620, 1100), 300       # 186000 / 330000 guesses in ONE pre-terminal
    rs = {"name": "BIG", "encoding": "utf-8", "uuid": "00000000-0000-0000-0000-000000000012", "files": {
        "A4": [("".join(chr(97 + (i // 26 ** k) % 26) for k in (3, 2, 1, 0)), 1.0 / n1) for i in range(n1)], "C4": [("LLLL", 1.0)],
        "D3": [("%03d" % i, 1.0 / n2) for i in range(n2)], "D1": [("7", 0.6), ("8", 0.4)]},
        "grammar": [("A4D3", 0.7), ("D1", 0.3)], "prince": [("D1", 1.0)], "omen": None, "omen_prob": [("1", 0.1)]}
    try:
        g = impl_next.load_grammar(rs, sc)
    except Exception as e:
        return [{"sig": "C12:raised", "what": "cannot load the big-pre-terminal ruleset: %r" % (e,), "replay": {"ruleset": rs}}]
    ref = sched.run_session(g, {}, sc)
    total = len(ref["out"])
    big = n1 * n2
    dist["big_preterminal_guesses"] = big
    for qstep in (1000, big * 3 // 5, big - 10):
        plan = {qstep: ["q", "die"]}
        r = sched.run_session(g, plan, sc)
        dist["big_preterminal_runs"] = dist.get("big_preterminal_runs", 0) + 1
        # steps: 1 per pop + 1 per guess; the big pre-terminal is popped first (probability 0.7/(n1*n2) vs 0.18: D1 first) - use the
        # reference boundaries instead of assuming the order
        bounds, c = [], 0
        from props.C04 import collect
        for it in ref["pops"]:
            res = collect(g, it["pt"], None)
            c += res[1] if res else 0
            bounds.append(c)
        n = len(r["out"])
        if r["out"] != ref["out"][:n] or (n not in bounds and n != total) or len(r["saves"]) < 2 and n < total:
            vio.append({"sig": "C12:not-at-boundary" if n not in bounds else "C12:altered",
                        "what": "quit requested at step %d inside a pre-terminal of %d guesses: the stream stopped after %d guesses "
                                "(pre-terminal boundaries %r, %d saves)" % (qstep, big, n, bounds, len(r["saves"])),
                        "replay": {"ruleset": rs, "plan": {str(qstep): ["q", "die"]}, "big": True}})
            break
    return vio


def reference(g, sc, start=None):
    """the undisturbed run (a new session, or the session resumed by [start]) split by pre-terminal"""
    r = sched.run_session(g, {}, sc, **(start() if start else {}))
    per_item, markov = [], []
    # split the output by pre-terminal using the real expansion counts
    from props.C04 import collect
    head = r["head"]        # a resumed session: what restore_omen wrote before the first pop
    pos = head
    for it in r["pops"]:
        res = collect(g, it["pt"], None)
        n = res[1] if res else 0
        per_item.append(r["out"][pos:pos + n])
        markov.append(it["pt"][0][0][0] == "M")
        pos += n
    return {"out": r["out"], "per_item": per_item, "markov": markov, "steps": r["steps"], "pops": r["pops"], "head": head,
            "split_ok": pos == len(r["out"])}


def resume_from(g, sc, plan, start=None):
    """run [plan] (it holds a quit) as a new session / as the session resumed by [start] in the save directory sc; if the run
    saved, return (start2, info): start2() puts the save file and the .omn as that run left them back and gives the
    arguments that resume from them (any number of times: a resumed run that is quit again overwrites both files)"""
    r = sched.run_session(g, plan, sc, **(start() if start else {}))
    base = 0 if start else 1
    if len(r["saves"]) <= base:
        return None, None
    with open(r["save_filename"], encoding="utf-8") as f:
        sav_text = f.read()
    omn_path = r["save_filename"][:-4] + ".omn"
    omn = None
    if os.path.isfile(omn_path):
        with open(omn_path, "rb") as f:
            omn = f.read()
    cfg = r["save_config"]
    n0 = cfg.getint("guessing_info", "omen_guess_number") if cfg.has_option("guessing_info", "omen_guess_number") else None

    def start2():
        if omn is not None:
            with open(omn_path, "wb") as f:
                f.write(omn)
        elif os.path.isfile(omn_path):
            os.remove(omn_path)
        with open(r["save_filename"], "w", encoding="utf-8") as f:
            f.write(sav_text)
        c = configparser.ConfigParser()
        c.read_string(sav_text)
        return {"load_config": c}
    return start2, {"omen_guess_number": n0, "written": len(r["out"]), "has_omn": omn is not None}


def ev_literal(plan):
    return common.clist(["(%d%%nat, %s)" % (int(t), common.clist([EV[e] for e in es])) for t, es in sorted(plan.items(), key=lambda kv: int(kv[0]))]) \
        if plan else "(@nil (nat * list ev))"


def stdin_conditions(ctx, code, rs, name):
    """the CLI under tty / open pipe / pipe at EOF / /dev/null / closed stdin: same stdout"""
    rd = os.path.join(code, "Rules", name)
    rulesets.write_ruleset(rs, rd)
    env = common.subenv()
    env["PYTHONPATH"] = code
    args = [common.PY, "pcfg_guesser.py", "-r", name, "-s", "c12_" + name]
    rc, ref, _ = common.run_cli(args, code, env, 120)
    res = {"open_pipe": ref}
    r = subprocess.run(args, cwd=code, env=env, input=b"", stdout=subprocess.PIPE, stderr=subprocess.PIPE, timeout=120)
    res["pipe_at_eof"] = r.stdout
    r = subprocess.run(args, cwd=code, env=env, stdin=subprocess.DEVNULL, stdout=subprocess.PIPE, stderr=subprocess.PIPE, timeout=120)
    res["dev_null"] = r.stdout
    r = subprocess.run(["sh", "-c", 'exec "$@" <&-', "sh"] + args, cwd=code, env=env, stdout=subprocess.PIPE, stderr=subprocess.PIPE, timeout=120)
    res["closed"] = r.stdout
    m, s = pty.openpty()
    try:
        p = subprocess.Popen(args, cwd=code, env=env, stdin=s, stdout=subprocess.PIPE, stderr=subprocess.PIPE)
        out, _ = p.communicate(timeout=120)
        res["tty"] = out
    finally:
        os.close(m)
        os.close(s)
    vio = []
    for k, v in res.items():
        if v != ref:
            vio.append({"sig": "C12:stdin:" + k, "what": "stdin %s: %d stdout lines instead of %d" % (k, v.count(b"\n"), ref.count(b"\n")),
                        "replay": {"ruleset": rs, "stdin": k}})
    return vio, len(res)


def fork(rng):
    """a generator of its own for an added family, derived from the state of ctx.rng without drawing from it (the families
    that were there before keep seeing the numbers they saw)"""
    import random
    return random.Random(hash(rng.getstate()[1]) & 0xFFFFFFFFFFFF)


def str_plan(plan):
    return {str(k): v for k, v in plan.items()}


def explore(g, rs, sc, ref, plans, st, start=None, history=None, family="new"):
    """observe every plan on the session ([start] = None: new; else resumed); violations, counts and samples go to st;
    returns the observations"""
    T = ref["steps"]
    dist = st["dist"]
    obs_list = []
    for plan in plans:
        obs, v = observe(g, plan, sc, ref, start)
        for x in v:
            x["replay"] = {"ruleset": rs, "plan": x.pop("plan")}
            if history:
                x["replay"]["history"] = history
        st["vio"] += v
        dist["schedules"] += 1
        dist["schedules:" + family] = dist.get("schedules:" + family, 0) + 1
        hq = any("q" in e for e in plan.values())
        dist["with_quit"] += hq
        t0 = min(plan)
        inside = 0 < t0 < T - 1
        key = (json.dumps(rs["grammar"]), json.dumps(history), json.dumps(sorted(plan.items())))
        if key not in st["seen"]:
            st["seen"].add(key)
            st["nontrivial"] += inside
        plan_, n, saved, om, fin, extra = obs
        if om:
            dist["inside_markov"] += 1
        for step, ev, chars in extra["reports"]:
            dist["status_reports"] = dist.get("status_reports", 0) + (chars > 0)
            cur = [i for i, po in enumerate(ref.get("pop_steps", [])) if po < step]
            if ev in ("status", "help", "q") and cur:
                c = prob_class(ref["pops"][cur[-1]]["prob"])
                dist["requests_at:" + c] = dist.get("requests_at:" + c, 0) + 1
            if start is not None and step < ref["head"]:
                dist["requests_in_restored_level"] = dist.get("requests_in_restored_level", 0) + 1
        want = hq and om if family == "new" else hq and (t0 < ref["head"] or family != "resumed")    # a quit inside a Markov level
        if st["sample_count"].get(family, 0) < (4 if family == "new" else 2) and want:
            st["sample_count"][family] = st["sample_count"].get(family, 0) + 1
            sm = {"family": family, "pre-terminals (markov, #guesses)": list(zip(ref["markov"], [len(x) for x in ref["per_item"]])),
                  "schedule": str_plan(plan), "guesses_written": n, "saved_at": saved, "markov_cut": om}
            if history:
                sm["resumed_after"] = history
                sm["guesses_left_in_restored_level"] = ref["head"]
            if family not in ("new", "resumed"):
                sm["probabilities_of_the_pre-terminals"] = [repr(po["prob"]) for po in ref["pops"]]
            st["samples"].append(sm)
        obs_list.append(obs)
    return obs_list


def pts_literal(ref):
    return common.clist(["(%s, %d%%nat)" % (common.cbool(m), len(x)) for m, x in zip(ref["markov"], ref["per_item"])]) \
        if ref["per_item"] else "(@nil (bool * nat))"


def shard_new(ref, obs_list):
    cases = ["(%s, %d%%nat, %s, %s, %s)" % (
        ev_literal(plan_), n, common.coption(saved, lambda x: "%d%%nat" % x),
        common.coption(om, lambda x: "(%d%%nat, %d%%nat)" % x), common.cbool(fin)) for plan_, n, saved, om, fin, _ in obs_list]
    return "\n".join(["From Coq Require Import List Arith Bool.", "From Pcfg Require Import Session SessionCorr.",
                      "From PcfgGen Require Import Consts_gen.", "Import ListNotations.",
                      "Definition pts := mk_pts %s 0 0." % pts_literal(ref),
                      "Definition runs : list obs_run := [", ";\n".join(cases), "].",
                      "Eval vm_compute in (failing (check_run session_polls_quit_flag pts) runs)."])


def shard_resumed(ref, info, obs_list):
    """the resumed session in the model: SessionModel.w_run with load_session = true (SessionResumedCorr.check_resumed); the
    restored level is pre-terminal 0, the restored queue holds pre-terminals 1, 2, ..."""
    onat = lambda x: common.coption(x, lambda y: "%d%%nat" % y)
    opair = lambda x: common.coption(x, lambda y: "(%d%%nat, %d%%nat)" % y)
    n0 = info["omen_guess_number"]
    om0 = (0, n0 or 0) if info["has_omn"] else None
    cases = []
    for plan_, n, saved, om, fin, extra in obs_list:
        sv = "(@nil (option nat * option nat))" if fin else "[(%s, %s)]" % (onat(saved + 1), onat(extra["cfg_omen"]))
        om_ = (om[0] + 1, om[1]) if om else om0
        cases.append("(%s, %d%%nat, %s, %s)" % (ev_literal(plan_), n, sv, opair(om_)))
    return "\n".join(["From Coq Require Import List Arith Bool.", "From Pcfg Require Import Session SessionCorr SessionResumedCorr.",
                      "Import ListNotations.",
                      "Definition head := seq 0 %d." % ref["head"],
                      "Definition pts := mk_pts %s 1 %d." % (pts_literal(ref), ref["head"]),
                      "Definition runs : list res_run := [", ";\n".join(cases), "].",
                      "Eval vm_compute in (failing (check_resumed head pts %s %s) runs)." % (onat(n0), opair(om0))])


def pop_steps(ref):
    """the atomic step of every pop of the undisturbed run"""
    t, res = ref["head"], []
    for x in ref["per_item"]:
        res.append(t)
        t += 1 + len(x)
    return res


def cuts_of(ref):
    """where an earlier run can be quit so that a save file exists: ('markov', i, j, step) = after the j-th guess of Markov level
    i (not its last guess; a later pop exists, else nothing is saved: R18), ('pop', i, step) = at the pop of pre-terminal i"""
    ps = pop_steps(ref)
    n = len(ref["per_item"])
    mk = [("markov", i, j, ps[i] + j) for i in range(n - 1) if ref["markov"][i] for j in range(1, len(ref["per_item"][i]))]
    po = [("pop", i, ps[i]) for i in range(1, n)]
    return mk, po


def resumed_families(ctx, rng, g, rs, sc, ref, st, shards, tag, n_markov, n_pop, chain, maxT):
    """schedules on sessions RESUMED from a save that an earlier run of the same session left: quit inside a Markov level
    (the resumed run first writes the remainder of that level, from a status item that CrackingSession.run builds by hand)
    or at a pop; events at every atomic step of the remainder and at / after the first pop (quick: the remainder up to
    6 steps, the first pop, 3 later steps; thorough: the whole remainder, the first pop, 6 later steps, random pairs).  chain: also resume a session that was itself resumed and
    quit again inside the remainder."""
    mk, po = cuts_of(ref)
    rng.shuffle(mk)
    rng.shuffle(po)
    # prefer cuts that leave a long remainder
    mk.sort(key=lambda c: c[2] > 2)
    todo = [(c, None, None, 0) for c in mk[:n_markov] + po[:n_pop]]
    k = 0
    while todo:
        cut, start, history, depth = todo.pop(0)
        k += 1
        d = os.path.join(sc, "%s_res%d" % (tag, k))
        os.makedirs(d, exist_ok=True)
        plan1 = {cut[-1]: ["q", "die"]}
        if start is not None:
            # the earlier run was itself a resumed one: make its files first, in the new directory
            start, _ = rebuild(g, d, history)
            if start is None:
                continue
        start2, info = resume_from(g, d, plan1, start)
        if start2 is None:
            continue
        hist2 = (history or []) + [str_plan(plan1)]
        ref2 = reference(g, d, start2)
        ref2["pop_steps"] = pop_steps(ref2)
        T2 = ref2["steps"]
        if T2 < 1 or T2 > 2 * maxT or not ref2["split_ok"]:
            continue
        dist = st["dist"]
        fam = "resumed" if cut[0] == "markov" or depth else "resumed-at-pop"
        dist["resumed_sessions"] = dist.get("resumed_sessions", 0) + 1
        dist["resumed_in_markov_level"] = dist.get("resumed_in_markov_level", 0) + (ref2["head"] > 0)
        h = ref2["head"]
        later = list(range(h + 1, T2))
        if ctx.tier == "thorough":
            positions = sorted(set(list(range(h)) + ([h] if h < T2 else []) + rng.sample(later, min(6, len(later)))))
        else:
            positions = sorted(set(list(range(min(h, 6))) + ([h] if h < T2 else []) + rng.sample(later, min(3, len(later)))))
        obs = explore(g, rs, d, ref2, plans_for(T2, rng, ctx.tier, positions, h), st, start2, hist2, fam)
        shards.append(("%s_x%02d" % (tag, k), shard_resumed(ref2, info, obs)))
        if chain and depth == 0 and h >= 2:
            # quit again after the first guess of the remainder, resume that
            todo.append((("markov", -1, 1, 0), start2, hist2, 1))
            chain -= 1


def rebuild(g, d, history):
    """replay the earlier runs [history] (each a schedule holding a quit) in the save directory d; the start function of the
    session resumed after the last of them (None if one of them did not save)"""
    start, info = None, None
    for hp in history:
        start, info = resume_from(g, d, {int(k): v for k, v in hp.items()}, start)
        if start is None:
            return None, None
    return start, info


def run(ctx):
    nrs = ctx.scale(5, 40)
    maxT = ctx.scale(40, 60)
    sc = common.scratch()
    vio, samples, shards, corr = [], [], [], []
    dist = {"rulesets": 0, "schedules": 0, "with_quit": 0, "inside_markov": 0, "steps_total": 0, "stdin_runs": 0}
    st = {"vio": vio, "dist": dist, "samples": samples, "seen": set(), "nontrivial": 0, "sample_count": {}}
    tries = 0
    while dist["rulesets"] < nrs and tries < nrs * 30:
        tries += 1
        rs = small_ruleset(ctx.rng)
        try:
            g = impl_next.load_grammar(rs, sc)
        except Exception:
            continue
        items, _, capped, _ = impl_next.full_stream(g, cap=30, check_heap=False)
        if capped or len(items) < 2:
            continue
        ref = reference(g, sc)
        T = ref["steps"]
        if T > maxT or T < 4 or not any(ref["markov"]):
            continue
        dist["rulesets"] += 1
        dist["steps_total"] += T
        ref["pop_steps"] = pop_steps(ref)
        obs = explore(g, rs, sc, ref, plans_for(T, ctx.rng, ctx.tier), st)
        shards.append(("r%03d" % dist["rulesets"], shard_new(ref, obs)))
        # the same session quit and RESUMED: events while the rest of the restored Markov level is written, and after it
        resumed_families(ctx, fork(ctx.rng), g, rs, sc, ref, st, shards, "r%03d" % dist["rulesets"],
                         n_markov=ctx.scale(2, 3), n_pop=1, chain=ctx.scale(1 if dist["rulesets"] <= 2 else 0, dist["rulesets"] % 2), maxT=maxT)
    # rulesets with probabilities at the edges of the float range (the status report shows the current pre-terminal's
    # probability; generation multiplies them): the same schedules, the same oracle
    xrng = fork(ctx.rng)
    nx = ctx.scale(len(EXTREME_KINDS), 3 * len(EXTREME_KINDS))
    off = xrng.randrange(len(EXTREME_KINDS))
    xn = 0
    for xi in range(nx):
        kind = EXTREME_KINDS[(off + xi) % len(EXTREME_KINDS)]
        for attempt in range(40):       # a kind that cannot be drawn does not hold up the others
            rs = extreme_ruleset(xrng, kind)
            try:
                g = impl_next.load_grammar(rs, sc)
            except Exception:
                dist["extreme_not_loadable"] = dist.get("extreme_not_loadable", 0) + 1
                continue
            items, _, capped, _ = impl_next.full_stream(g, cap=30, check_heap=False)
            if capped or len(items) < 2:
                continue
            ref = reference(g, sc)
            T = ref["steps"]
            classes = [prob_class(po["prob"]) for po in ref["pops"]]
            want = {"sub-base": "subnormal", "sub-term": "subnormal", "sub-omen": "subnormal", "sub-all": "subnormal", "tiny": "tiny",
                    "zero": "zero", "one": "one"}.get(kind)
            if T > ctx.scale(30, 40) or T < 4 or not ref["split_ok"]:
                continue
            if (want and want not in classes) or (kind == "under-later" and not ("subnormal" in classes and classes[0] in ("tiny", "ordinary"))):
                continue
            xn += 1
            dist["extreme_rulesets"] = dist.get("extreme_rulesets", 0) + 1
            dist["extreme:" + kind] = dist.get("extreme:" + kind, 0) + 1
            for c in classes:
                dist["pre-terminals:" + c] = dist.get("pre-terminals:" + c, 0) + 1
            ref["pop_steps"] = pop_steps(ref)
            obs = explore(g, rs, sc, ref, plans_for(T, xrng, ctx.tier), st, family="extreme:" + kind)
            shards.append(("e%03d" % xn, shard_new(ref, obs)))
            if any(ref["markov"][:-1]):
                resumed_families(ctx, xrng, g, rs, sc, ref, st, shards, "e%03d" % xn, n_markov=1, n_pop=ctx.scale(0, 1), chain=0, maxT=maxT)
            break
    # every run explores sessions resumed INSIDE a Markov level: if the rulesets above happened to offer fewer than two (the
    # level was always the last pre-terminal, or had a single guess), draw further rulesets for that family alone
    frng, ft = fork(xrng), 0
    while dist.get("resumed_in_markov_level", 0) < 2 and ft < 200:
        ft += 1
        rs = small_ruleset(frng)
        try:
            g = impl_next.load_grammar(rs, sc)
        except Exception:
            continue
        items, _, capped, _ = impl_next.full_stream(g, cap=30, check_heap=False)
        if capped or len(items) < 2:
            continue
        ref = reference(g, sc)
        if ref["steps"] > maxT or not cuts_of(ref)[0]:
            continue
        resumed_families(ctx, frng, g, rs, sc, ref, st, shards, "f%03d" % ft, n_markov=2, n_pop=0, chain=0, maxT=maxT)
    nontrivial = st["nontrivial"]
    for name, idx, log in common.run_case_shards("C12", shards):
        if idx is None:
            corr.append(("session:" + name, False, log[-800:]))
        elif idx:
            corr.append(("session:" + name, False, "model and implementation outcomes differ for schedules %s" % idx[:10]))
        else:
            corr.append(("session:" + name, True, ""))
    # (a') true concurrency: status requests back to back from a second thread while the real print_guess writes to
    # stdout (runtime test: it can only catch a race it happens to hit)
    storms = 0
    for i in range(40):
        if storms >= ctx.scale(2, 6):
            break
        rs = rulesets.gen_ruleset(ctx.rng, with_markov=False, max_bases=4, max_len=4)
        try:
            g = impl_next.load_grammar(rs, sc)
        except Exception:
            continue
        items, _, capped, _ = impl_next.full_stream(g, cap=3000, check_heap=False)
        if capped:
            continue
        ref = sched.run_session(g, {}, sc)["out"]
        if len(ref) < 1500 or len(ref) > 60000:
            continue
        storms += 1
        for rep in range(ctx.scale(4, 10)):
            got = sched.run_session(g, {}, sc, storm=True)["out"]
            dist["storm_runs"] = dist.get("storm_runs", 0) + 1
            if got != ref:
                vio.append({"sig": "C12:status-storm", "what": "status requests from the keyboard thread running concurrently with guess generation "
                            "changed stdout: %d lines instead of %d" % (len(got), len(ref)), "replay": {"ruleset": rs, "storm": True}})
                break
    # (a'') one enormous non-Markov pre-terminal (300 x 300 equally probable values): a quit requested deep inside it stops at
    # its end, not inside, and the session is saved
    vio += big_preterminal(ctx, sc, dist)
    # (b) stdin conditions through the real CLI
    code = common.copy_code_tree(common.scratch())
    for i in range(ctx.scale(2, 6)):
        rs = small_ruleset(ctx.rng)
        rs["name"] = "S%d" % i
        v, n = stdin_conditions(ctx, code, rs, "S%d" % i)
        vio += v
        dist["stdin_runs"] += n
    rule = ("small rulesets with Markov levels (<= %d atomic steps); EVERY single placement of status / help / EOF / input error / "
            "broken stderr / quit (flag and thread end together or 1, 2, 5 steps apart) at every atomic step, delivered to the real "
            "keypress thread by a scheduler; thorough adds random pairs; the same placements (i) on rulesets whose files hold "
            "probabilities at the edges of the float range (%s: subnormal / 0.0 / 1.0 / tiny pre-terminal probabilities, for all or "
            "only the later pre-terminals) and (ii) on RESUMED sessions: an earlier run of the session was quit inside a Markov level "
            "(or at a pop, or was itself a resumed run quit inside the restored level), its save file and .omn are loaded, events at "
            "every step of the remainder of the restored level (quick: up to 6), at the first pop and after it (quick: 3 steps, "
            "thorough: 6 steps and random pairs); oracle everywhere: prefix of the undisturbed run, a quit typed to a listening thread sets the flag and "
            "stops the run at the next Markov guess / pre-terminal boundary with the session saved, the thread survives every status "
            "/ help request; plus the CLI under tty / open pipe / pipe at EOF / /dev/null / "
            "closed stdin; non-trivial = the event lands strictly inside the run; distinct by (ruleset, earlier runs, schedule)"
            % (maxT, ", ".join(EXTREME_KINDS)))
    # translator tie of the session loop (CrackingSession.run = SessionModel.m_run = Session.run_session)
    import session_tie
    corr.append(session_tie.obligation("session"))
    return {"evaluations": dist["schedules"] + dist["stdin_runs"], "distinct_nontrivial": nontrivial, "rule": rule,
            "samples": samples, "corr": corr, "violations": vio, "dist": dist}


def replay(ctx, data):
    inp = data.get("input") or {}
    if "ruleset" not in inp:
        return []
    rs = inp["ruleset"]
    if inp.get("storm"):
        sc = common.scratch()
        g = impl_next.load_grammar(rs, sc)
        ref = sched.run_session(g, {}, sc)["out"]
        for rep in range(8):
            got = sched.run_session(g, {}, sc, storm=True)["out"]
            if got != ref:
                return [{"sig": "C12:status-storm", "what": "%d lines instead of %d" % (len(got), len(ref)), "replay": inp}]
        return []
    if "stdin" in inp:
        code = common.copy_code_tree(common.scratch())
        v, _ = stdin_conditions(ctx, code, rs, rs.get("name", "S0"))
        return v
    sc = common.scratch()
    g = impl_next.load_grammar(rs, sc)
    plan = {int(k): v for k, v in inp["plan"].items() if k not in ("early", "past_time")}
    start, history = None, inp.get("history")
    if history:
        # the session is resumed after the earlier runs [history] (each a schedule with a quit) of the same session
        sc = os.path.join(sc, "replay_res")
        os.makedirs(sc, exist_ok=True)
        start, _ = rebuild(g, sc, history)
        if start is None:
            return [{"sig": "C12:quit-without-save", "what": "the earlier runs %r of the session did not leave a save file to resume from"
                     % (history,), "replay": inp}]
    ref = reference(g, sc, start)
    obs, v = observe(g, plan, sc, ref, start)
    for x in v:
        x["replay"] = {"ruleset": rs, "plan": x.pop("plan")}
        if history:
            x["replay"]["history"] = history
    return v
