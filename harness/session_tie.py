"""Status of the translator tie of the session loops (harness/translate_session.py), as a
correspondence-style obligation of C17 (prince), C16 (honey), C09 / C12 / C15 (session): the
generated file must have been translated from the current source, must compile, and the file
with the equality proofs (generated definition = hand-written model) must have been built by
`make` from the current generated text.  When it was not, the proofs file is compiled once
more on its own to name the lemma that no longer checks (the broken theorem a
`no-failing-input-found` verdict names).  The work is done by omen_gen_tie.status."""
import omen_gen_tie

KERNELS = {
    "prince": ("translator-tie:create_prince_wordlist = model Session.prince (SessionPrinceGenProofs)",
               "gen/SessionPrince_gen.v", "theories/SessionPrinceGenProofs.v"),
    "honey": ("translator-tie:HoneywordSession.run = model Honey.honey_loop (SessionHoneyGenProofs)",
              "gen/SessionHoney_gen.v", "theories/SessionHoneyGenProofs.v"),
    "session": ("translator-tie:CrackingSession.run/_save_session/keypress = model Session.run_session/limited, "
                "Omen.sess_restore/sess_quit (SessionGenProofs)",
                "gen/Session_gen.v", "theories/SessionGenProofs.v"),
}


def obligation(which):
    """-> (name, ok, detail) for the `corr` list of a property module"""
    name, gen, proofs = KERNELS[which]
    return omen_gen_tie.status(name, gen, proofs)
