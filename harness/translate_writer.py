#!/venv/bin/python
"""Fail-closed translator of the ruleset writers from Python to Gallina.

    /venv/bin/python harness/translate_writer.py [save|struct|config]    print the generated text
    /venv/bin/python harness/translate_writer.py --write                 write coq/gen/Writer*_gen.v

Sources and outputs (one generated file per group, so that a group that no longer
translates breaks only the properties that depend on it):

  save    lib_trainer/save_pcfg_data.py  calculate_and_save_counter, save_indexed_counters,
          save_pcfg_data                      -> coq/gen/Writer_gen.v        (C06, C07)
  struct  lib_trainer/base_structure.py  base_structure_creation
          lib_trainer/prince_metrics.py  prince_evaluation
          lib_trainer/pcfg_password_parser.py  the tail of PCFGPasswordParser.parse, from the call
              of prince_evaluation / base_structure_creation to `return True`
          lib_trainer/run_trainer.py     the Markov pseudo-count block of run_trainer (the top-level
              statements that mention count_base_structures / program_info['coverage']) and the
              order of the calls of run_trainer (py_run_trainer_events)
                                              -> coq/gen/WriterStruct_gen.v  (C06)
  config  lib_trainer/config_file.py     create_filename_list, the add_* functions,
          create_config_file                  -> coq/gen/WriterConfig_gen.v  (C07)

The source is only parsed (`ast`), never imported or executed.  The output targets the
runtime coq/theories/WriterRt.v; coq/theories/WriterGenProofs*.v prove each generated
definition equal to the hand-written models of Counters.v / TextFile.v the theorems of C06 /
C07 are about.  Comments, docstrings, blank lines and formatting do not reach the output
(except the source line numbers in the comments of the generated text); local variable
names are carried over (a name that collides with the runtime gets the suffix _v) and the
proofs do not depend on them.

Accepted subset (anything else raises TranslateError with file:line):

  statements  docstrings; pass; print(...) and print_statistics(...) of pure arguments (no
              effect on the result: dropped); x = e; a, b = e; x += e; d[k] = e and
              d[k] += n (also spelled d[k] = d[k] + n) on a dict / Counter held in a local, a parameter updated in place or
              an attribute of the parser object the function owns (self.count_.. /
              pcfg_parser.count_base_structures); d.clear(); l.append(e) and l[i] = e on a
              local list; if / elif / else (`if e is None` / `is not None` is a match on the
              option and the tested expression is the value itself where it is not None);
              for x in l / for a, b in d.items() / for k in d / for i, x in enumerate(l) /
              for root, dirs, files in os.walk(p); try: .. except Exception [as e]: .. (or a
              bare except; no else / finally; the handler sees none of the variables the body
              assigns); with codecs.open(p, 'w', encoding=e) as f: ..; f.write(s);
              os.unlink(p) / os.remove(p); return e; raise E / raise E(..) for ValueError,
              TypeError, IndexError, KeyError, OSError; calls of the translated functions of
              the same group (a function that updates an argument in place returns its final
              value; the argument must be a variable the caller owns); config.add_section(s),
              config.set(s, k, v).
  expressions names; True / False; ints >= 0; string constants; f-strings without format
              specification ({e} / {e!s} is str(e)); str(e) (identity on a str, decimal digits
              of an int, `repr` - a parameter of the generated definitions - on a number,
              str(key) of a dict key); + on strings and ints; /, -, + between numbers (an int
              next to a number is converted: nofN; 0 and 1 are the numbers nzero / none);
              ==, != (numbers: neqb; strings; ints), <, <=, >, >= (numbers: nltb; ints);
              x in [..] / not in for a literal list / tuple of string constants; not / and /
              or; a if c else b; tuples; list and dict displays; e[0] e[1] e[2] on tuples;
              s[i] for a constant i on a string (IndexError when out of range, evaluated
              before the statement it occurs in); ''.join(l); len(e); list(d); d.items();
              c.most_common(n) in a truth test only (non-empty iff c is);
              os.path.join(p, name, ..); calculate_probabilities(c) (a parameter of the
              generated definitions: the function is translated and tied to its model by
              translate_small.py); json.dumps(l) of a list of names; [e for x in l if c];
              attributes of the parser object (record projections); program_info['key'] for
              the keys the specification lists.  An expression the configuration functions
              only store (program details, comments, uuid, json of the replacement tables)
              is the opaque value VOpaque; it may contain nothing but constants, displays,
              subscripts / attributes of the opaque parameters and str, json.dumps,
              os.path.basename, uuid.uuid4.
  layout      the variables a loop / conditional / try carries are put into tuples in a
              canonical order (by type, then first binding); every generated definition takes
              the whole context of its group as explicit parameters, used or not.

Not accepted (refused, like everything else outside the list above): while, break, continue,
for ... else, enumerate in a function that touches the file system, `*` and int - int,
generator expressions, starred / keyword arguments, lambdas, nested defs.

What the translation does NOT model: exceptions other than the listed ones (a failing
open / unlink because of permissions or missing directories, an unknown codec name,
ZeroDivisionError: the division of a numops is total); printing (print_statistics(..) is
taken to print only); object identity (mutation is accepted on locals the function owns and on the
listed in-place parameters only; aliasing such an object is refused); a Counter key None is
its str(); os.walk is evaluated when the loop starts, directories without files are not
listed and the order of the directories is the order of the files in the model's map;
os.path.join(p, n) for a relative name n without separator; ConfigParser beyond
add_section / set (option names are not lower-cased: the source uses lower-case names);
that str(float) is the `repr` the readers invert and that the codec encodes a string iff it
encodes each character (`encb`): exercised by the correspondence on every run.  Rebinding
of the translated functions from another module is out of the translator's sight.
"""
import ast
import hashlib
import os
import sys

HERE = os.path.dirname(os.path.abspath(__file__))
if HERE not in sys.path:
    sys.path.insert(0, HERE)
import common  # noqa: E402
from translate_kernel import TranslateError, _paren, _close, _comment  # noqa: E402

# ------------------------------------------------------------------ types
BOOL, INT, NUM, STR, UNIT, PATH, KEY, HANDLE, EXN, OPAQUE, CVAL, CONFIG, PARSER = (
    "bool", "int", "num", "str", "unit", "path", "key", "handle", "exn", "opaque", "cval", "config", "parser")


def LIST(t):
    return ("list", t)


def OPT(t):
    return ("opt", t)


def TUP(*ts):
    return ("tuple",) + tuple(ts)


def DICT(k, v):
    return ("dict", k, v)


CNT = DICT(STR, NUM)          # a Counter whose counts are numbers (after the pseudo-count)
ICNT = DICT(STR, INT)         # a Counter of ints
KCNTS = DICT(KEY, CNT)        # {length or name: Counter}
SECTION = TUP(STR, OPT(STR))
SECS = LIST(SECTION)
UNKNOWN = "?"                 # element type of [] before the first append


def coq_type(t):
    simple = {BOOL: "bool", INT: "N", NUM: "num O", STR: "TextFile.str", UNIT: "unit", PATH: "WriterRt.path",
              KEY: "pykey", HANDLE: "WriterRt.handle", EXN: "exn", CVAL: "cval", CONFIG: "WriterRt.config",
              PARSER: "parser_obj O", OPAQUE: "unit"}
    if isinstance(t, str):
        if t not in simple:
            raise TranslateError("internal: no Coq type for %r" % (t,))
        return simple[t]
    if t == SECTION:
        return "WriterRt.section"
    if t == CNT:
        return "Counters.counter O"
    if t[0] == "list":
        return "list %s" % _paren(coq_type(t[1]))
    if t[0] == "opt":
        return "option %s" % _paren(coq_type(t[1]))
    if t[0] == "dict":
        return "list (%s * %s)" % (_paren(coq_type(t[1])), _paren(coq_type(t[2])))
    if t[0] == "tuple":
        return "(%s)" % " * ".join(_paren(coq_type(x)) for x in t[1:])
    raise TranslateError("internal: no Coq type for %r" % (t,))


def type_name(t):
    return repr(t)


# names of the runtime / the models / Coq the generated text mentions: a Python local of that name is renamed
RESERVED = set("""O num nzero none nadd nsub ndiv nltb neqb nofN numops str repr encb calculate_probabilities
tt true false fst snd length nth map filter concat existsb forallb negb andb orb app rev firstn seq list nat bool unit N
fun let in if then else match with end forall exists Type Prop Set as at return fix cofix struct where Definition
Fixpoint Section End Some None option
exn ValueError TypeError IndexError KeyError UnicodeEncodeError OSError ConfigError out Norm Retn Exc bind try_except
for_each for_enum for_enum_cur res Ok Raise run_fn call pykey KInt KStr pykey_eqb py_str kdict_set cnt_add section
none_text key_of_opt the str_item s_in nonempty set_nth list_store path fsys path_eqb path_join fs_mem fs_remove
fs_set fs_append is_prefix is_under parent basename walk SM NormS RetnS ExcS bindS try_exceptS for_eachS run_fnS
callS liftS handle h_path h_enc with_open_w fwrite os_walk os_unlink parser_obj cval VStr VNames VOpaque config
cfg_has cfg_add_section cfg_set cfg_set_in cfg_names cfg_dirs s_ str_of_string dict_set dict_get str_eqb dec_of_N
most_common total calc_probs counter incr tally file_name dot_txt WriterRt TextFile Counters""".split())

PURE_OPAQUE_CALLS = {("str",), ("json", "dumps"), ("os", "path", "basename"), ("uuid", "uuid4")}
EXN_NAMES = {"ValueError": "ValueError", "TypeError": "TypeError", "IndexError": "IndexError", "KeyError": "KeyError",
             "OSError": "OSError", "IOError": "OSError"}


def str_lit(v):
    """a Python str constant as a code point list"""
    if v == "":
        return "(@nil N)"
    if all(32 <= ord(c) <= 126 and c not in '"\\' for c in v):
        return '(s_ "%s"%%string)' % v
    return "[%s]" % "; ".join(str(ord(c)) for c in v)


def dotted(e):
    """a.b.c -> ('a','b','c'), else None"""
    parts = []
    while isinstance(e, ast.Attribute):
        parts.append(e.attr)
        e = e.value
    if isinstance(e, ast.Name):
        parts.append(e.id)
        return tuple(reversed(parts))
    return None


class Env:
    def __init__(self):
        self.types = {}      # python name -> type
        self.names = {}      # python name -> Coq name
        self.owned = set()   # python names bound to a local object nothing else refers to (may be mutated)
        self.refine = {}     # ast.dump of an expression known not to be None -> (coq text, type)
        self.order = []      # python names in order of first binding

    def copy(self):
        e = Env()
        e.types, e.names, e.owned = dict(self.types), dict(self.names), set(self.owned)
        e.refine, e.order = dict(self.refine), list(self.order)
        return e


class FnTr:
    """one function (or a slice of the statements of one) -> one Gallina definition"""

    def __init__(self, path, rel, owner, fn, spec, group):
        self.path, self.rel, self.owner, self.fn, self.spec, self.group = path, rel, owner, fn, spec, group
        self.stateful = bool(spec.get("stateful"))
        self.pending = []      # (binder text, monadic text, is a stateful computation)
        self.uid = 0
        self.attr_vars = dict(spec.get("attrs", {}))     # ('self', 'count_prince') -> python-level variable name
        self.item_vars = dict(spec.get("items", {}))     # ('program_info', 'coverage') -> variable name
        self.opaque_params = set(spec.get("opaque", []))
        self.opaque_locals = set()                       # locals bound to a value the translator does not look into

    # -------------------------------------------------------------- errors, names, text
    def fail(self, node, msg):
        raise TranslateError("%s:%d: %s%s: %s  [%s]" % (
            self.path, getattr(node, "lineno", self.fn.lineno), self.owner, self.fn.name, msg,
            _comment(ast.unparse(node)).split("\n")[0][:100]))

    def S(self, name):
        """combinator name in the mode of this function"""
        return name + "S" if self.stateful else name

    def gensym(self):
        self.uid += 1
        return "t%d_" % self.uid

    def coq_name(self, node, name, env):
        """the Coq identifier of the Python variable `name` (bound now)"""
        if not name.isidentifier() or not name.isascii():
            self.fail(node, "unsupported variable name %r" % name)
        c = name
        if name in RESERVED or name.startswith("py_") or name.startswith("po_") or \
                (len(name) > 2 and name[0] == "t" and name[-1] == "_" and name[1:-1].isdigit()):
            c = name + "_v"
        for other, oc in env.names.items():
            if oc == c and other != name:
                self.fail(node, "the variable names %r and %r collide in the generated code" % (name, other))
        return c

    def bind_var(self, node, name, ty, env, owned=False):
        if name == "_":
            return "_"
        c = self.coq_name(node, name, env)
        if name not in env.types:
            env.order.append(name)
        env.types[name] = ty
        env.names[name] = c
        env.owned.discard(name)
        if owned:
            env.owned.add(name)
        if ty == OPAQUE:
            self.opaque_locals.add(name)
        else:
            self.opaque_locals.discard(name)
        # a refinement that mentions the rebound variable is no longer valid
        for k in [k for k in env.refine if ("id='%s'" % name) in k]:
            del env.refine[k]
        return c

    def note(self, s):
        return "(* %d: %s *)" % (s.lineno, _comment(ast.unparse(s).split("\n")[0]))

    def line(self, ind, text, s=None):
        pad = "  " * ind
        if s is None:
            return pad + text + "\n"
        first = pad + text
        return first + " " * max(2, 70 - len(first)) + self.note(s) + "\n"

    @staticmethod
    def tuple_text(names):
        """-> (value text, binder text) of a state tuple"""
        if not names:
            return "tt", "(_ : unit)"
        if len(names) == 1:
            return names[0], names[0]
        t = "(" + ", ".join(names) + ")"
        return t, "'" + t

    def state(self, pynames, env):
        """canonical layout of carried variables: by type, then first binding"""
        ordered = sorted(pynames, key=lambda n: (type_name(env.types[n]), env.order.index(n)))
        return ordered

    # -------------------------------------------------------------- pending partial computations
    def push(self, text, stateful=False):
        v = self.gensym()
        self.pending.append((v, text, stateful))
        return v

    def flush(self, ind):
        """-> (text of the binds of the pending computations, number of closing parentheses)"""
        out, n = "", 0
        for v, text, st in self.pending:
            if self.stateful:
                m = text if st else "liftS %s" % _paren(text)
                out += self.line(ind, "bindS %s (fun %s =>" % (_paren(m), v))
            else:
                if st:
                    raise TranslateError("internal: stateful computation in a pure function")
                out += self.line(ind, "bind %s (fun %s =>" % (_paren(text), v))
            n += 1
        self.pending = []
        return out, n

    def no_pending(self, node, what):
        if self.pending:
            self.fail(node, "an operation that can raise / a call inside %s" % what)

    # -------------------------------------------------------------- expressions
    def mapped_var(self, e):
        """obj.attr / obj['key'] the specification maps to a variable -> its python-level name"""
        if isinstance(e, ast.Attribute) and isinstance(e.value, ast.Name) and (e.value.id, e.attr) in self.attr_vars:
            return self.attr_vars[(e.value.id, e.attr)]
        if isinstance(e, ast.Subscript) and isinstance(e.value, ast.Name) and isinstance(e.slice, ast.Constant) \
                and (e.value.id, e.slice.value) in self.item_vars:
            return self.item_vars[(e.value.id, e.slice.value)]
        return None

    def var_of(self, e, env):
        """a plain name or a mapped attribute that denotes a variable of env -> python-level name, else None"""
        if isinstance(e, ast.Name) and e.id in env.types:
            return e.id
        m = self.mapped_var(e)
        if m is not None and m in env.types:
            return m
        return None

    def to_str(self, node, text, ty):
        """str(e)"""
        if ty == STR:
            return text
        if ty == INT:
            return "dec_of_N %s" % _paren(text)
        if ty == NUM:
            return "repr %s" % _paren(text)
        if ty == KEY:
            return "py_str %s" % _paren(text)
        if ty == OPT(STR):
            return "key_of_opt %s" % _paren(text)
        if ty == BOOL:
            return "(if %s then %s else %s)" % (text, str_lit("True"), str_lit("False"))
        self.fail(node, "str() of a %s" % type_name(ty))

    def number(self, node, text, ty):
        if ty == NUM:
            return text
        if ty == INT:
            if text == "0":
                return "nzero O"
            if text == "1":
                return "none O"
            return "nofN O %s" % _paren(text)
        self.fail(node, "a %s is used as a number" % type_name(ty))

    def coerce(self, node, text, ty, want):
        """a value of type ty where `want` is expected (only lossless injections)"""
        if ty == want:
            return text
        if want == NUM and ty == INT:
            return self.number(node, text, ty)
        if want == KEY and ty == STR:
            return "KStr %s" % _paren(text)
        if want == KEY and ty == INT:
            return "KInt %s" % _paren(text)
        if want == LIST(KEY) and ty == LIST(STR):
            return "map KStr %s" % _paren(text)
        if isinstance(want, tuple) and want[0] == "list" and ty == LIST(UNKNOWN):
            return text
        if isinstance(want, tuple) and want[0] == "dict" and ty == DICT(UNKNOWN, UNKNOWN):
            return text
        if isinstance(want, tuple) and isinstance(ty, tuple) and want[0] == ty[0] == "dict" and want[2] == ty[2] \
                and want[1] == KEY and ty[1] == STR:
            return "map (fun kv => (KStr (fst kv), snd kv)) %s" % _paren(text)
        if want == CVAL:
            if ty == STR:
                return "VStr %s" % _paren(text)
            if ty == OPAQUE:
                return "VOpaque"
        if want == OPAQUE:
            return "tt"
        self.fail(node, "a %s where a %s is expected" % (type_name(ty), type_name(want)))

    def is_opaque_expr(self, e):
        """built from constants, displays, the opaque parameters and the whitelisted pure functions only"""
        if isinstance(e, ast.Constant):
            return True
        if isinstance(e, ast.Name):
            return e.id in self.opaque_params or e.id in self.opaque_locals
        if isinstance(e, (ast.List, ast.Tuple)):
            return all(self.is_opaque_expr(x) for x in e.elts)
        if isinstance(e, ast.Dict):
            return all(k is not None and self.is_opaque_expr(k) for k in e.keys) and all(self.is_opaque_expr(v) for v in e.values)
        if isinstance(e, ast.Subscript):
            return self.is_opaque_expr(e.value) and self.is_opaque_expr(e.slice)
        if isinstance(e, ast.Attribute):
            return self.is_opaque_expr(e.value)
        if isinstance(e, ast.Call):
            return dotted(e.func) in PURE_OPAQUE_CALLS and not e.keywords and all(self.is_opaque_expr(a) for a in e.args)
        return False

    def tuple_proj(self, node, text, ty, i):
        n = len(ty) - 1
        if not (0 <= i < n):
            self.fail(node, "index %d of a %d-tuple" % (i, n))
        t = _paren(text)
        # (a, b, c) is ((a, b), c)
        for _ in range(n - 1 - i):
            t = "fst %s" % _paren(t)
        if i > 0:
            t = "snd %s" % _paren(t)
        return t, ty[1 + i]

    def expr(self, e, env):
        """-> (text, type); partial computations are pushed on self.pending in evaluation order"""
        key = ast.dump(e)
        if key in env.refine:
            return env.refine[key]
        if isinstance(e, ast.Name):
            if e.id in env.types:
                return env.names[e.id], env.types[e.id]
            if e.id in self.opaque_params:
                return "tt", OPAQUE
            self.fail(e, "unknown variable %r (not assigned on every path to here?)" % e.id)
        m = self.mapped_var(e)
        if m is not None:
            if m not in env.types:
                self.fail(e, "internal: %r is not a variable of this function" % m)
            return env.names[m], env.types[m]
        if isinstance(e, ast.Constant):
            v = e.value
            if v is True:
                return "true", BOOL
            if v is False:
                return "false", BOOL
            if type(v) is int and 0 <= v <= 100000:
                return "%d" % v, INT
            if type(v) is str:
                return str_lit(v), STR
            self.fail(e, "unsupported constant")
        if isinstance(e, ast.JoinedStr):
            parts = []
            for p in e.values:
                if isinstance(p, ast.Constant) and type(p.value) is str:
                    if p.value:
                        parts.append(str_lit(p.value))
                elif isinstance(p, ast.FormattedValue) and p.format_spec is None and p.conversion in (-1, 115):
                    t, ty = self.expr(p.value, env)
                    parts.append(_paren(self.to_str(p, t, ty)))
                else:
                    self.fail(e, "unsupported f-string part")
            if not parts:
                return "(@nil N)", STR
            return " ++ ".join(parts), STR
        if isinstance(e, ast.Tuple):
            ts = [self.expr(x, env) for x in e.elts]
            if len(ts) < 2:
                self.fail(e, "unsupported tuple")
            return "(" + ", ".join(t for t, _ in ts) + ")", TUP(*[ty for _, ty in ts])
        if isinstance(e, ast.List):
            if not e.elts:
                return "[]", LIST(UNKNOWN)
            if any(isinstance(x, (ast.Dict, ast.List, ast.Tuple)) for x in e.elts) and self.is_opaque_expr(e):
                return "tt", OPAQUE
            ts = [self.expr(x, env) for x in e.elts]
            ty = ts[0][1]
            if any(t2 != ty for _, t2 in ts):
                self.fail(e, "a list display of mixed types")
            return "[" + "; ".join(t for t, _ in ts) + "]", LIST(ty)
        if isinstance(e, ast.Dict):
            if not e.keys:
                return "[]", DICT(UNKNOWN, UNKNOWN)
            if self.is_opaque_expr(e):
                return "tt", OPAQUE
            items, kt, vt = [], None, None
            seen = set()
            for kn, vn in zip(e.keys, e.values):
                if not (isinstance(kn, ast.Constant) and type(kn.value) in (str, int)) or kn.value in seen:
                    self.fail(e, "the keys of a dict display must be distinct constants")
                seen.add(kn.value)
                k, tk = self.expr(kn, env)
                v, tv = self.expr(vn, env)
                k = self.coerce(kn, k, tk, KEY)
                if vt is not None and tv != vt:
                    self.fail(e, "a dict display with values of mixed types")
                vt = tv
                items.append("(%s, %s)" % (k, v))
            return "[" + "; ".join(items) + "]", DICT(KEY, vt)
        if isinstance(e, ast.Attribute):
            if isinstance(e.value, ast.Name) and env.types.get(e.value.id) == PARSER:
                fields = PARSER_FIELDS
                if e.attr not in fields:
                    self.fail(e, "unknown attribute of the parser object")
                return "po_%s %s" % (e.attr, env.names[e.value.id]), fields[e.attr]
            if self.is_opaque_expr(e):
                return "tt", OPAQUE
            self.fail(e, "unsupported attribute")
        if isinstance(e, ast.Subscript):
            return self.subscript(e, env)
        if isinstance(e, ast.UnaryOp) and isinstance(e.op, ast.Not):
            return self.cond(e, env), BOOL
        if isinstance(e, ast.BoolOp):
            return self.cond(e, env), BOOL
        if isinstance(e, ast.Compare):
            return self.compare(e, env)
        if isinstance(e, ast.BinOp):
            return self.binop(e, env)
        if isinstance(e, ast.IfExp):
            c = self.cond(e.test, env)
            n = len(self.pending)
            a, ta = self.expr(e.body, env)
            b, tb = self.expr(e.orelse, env)
            if len(self.pending) != n:
                self.fail(e, "an operation that can raise inside a conditional expression")
            if ta != tb:
                self.fail(e, "a conditional expression of a %s and a %s" % (type_name(ta), type_name(tb)))
            return "if %s then %s else %s" % (c, a, b), ta
        if isinstance(e, ast.ListComp):
            return self.listcomp(e, env)
        if isinstance(e, ast.Call):
            return self.call_expr(e, env)
        self.fail(e, "unsupported expression (%s)" % type(e).__name__)

    def subscript(self, e, env):
        if not isinstance(e.ctx, ast.Load):
            self.fail(e, "unsupported use of a subscript")
        if self.is_opaque_expr(e):
            return "tt", OPAQUE
        v, tv = self.expr(e.value, env)
        if isinstance(tv, tuple) and tv[0] == "tuple" and isinstance(e.slice, ast.Constant) and type(e.slice.value) is int:
            return self.tuple_proj(e, v, tv, e.slice.value)
        if tv in (STR, OPT(STR)) and isinstance(e.slice, ast.Constant) and type(e.slice.value) is int and e.slice.value >= 0:
            if tv == OPT(STR):
                v = self.push("the %s" % _paren(v))
            return self.push("str_item %s %d" % (_paren(v), e.slice.value)), STR
        self.fail(e, "unsupported subscript of a %s" % type_name(tv))

    def binop(self, e, env):
        a, ta = self.expr(e.left, env)
        b, tb = self.expr(e.right, env)
        if isinstance(e.op, ast.Add):
            if (ta, tb) == (STR, STR):
                return "%s ++ %s" % (_paren(a) if " ++ " not in a else a, _paren(b)), STR
            if (ta, tb) == (INT, INT):
                return "%s + %s" % (_paren(a), _paren(b)), INT
            if NUM in (ta, tb):
                return "nadd O %s %s" % (_paren(self.number(e, a, ta)), _paren(self.number(e, b, tb))), NUM
        if isinstance(e.op, (ast.Sub, ast.Div)) and NUM in (ta, tb):
            op = "nsub" if isinstance(e.op, ast.Sub) else "ndiv"
            return "%s O %s %s" % (op, _paren(self.number(e, a, ta)), _paren(self.number(e, b, tb))), NUM
        self.fail(e, "unsupported arithmetic (%s) on a %s and a %s" % (type(e.op).__name__, type_name(ta), type_name(tb)))

    def compare(self, e, env):
        if len(e.ops) != 1 or len(e.comparators) != 1:
            self.fail(e, "chained comparisons are not supported")
        op, right = e.ops[0], e.comparators[0]
        if isinstance(op, (ast.Is, ast.IsNot)):
            if not (isinstance(right, ast.Constant) and right.value is None):
                self.fail(e, "`is` is supported as `e is None` / `e is not None` only")
            a, ta = self.expr(e.left, env)
            if not (isinstance(ta, tuple) and ta[0] == "opt"):
                self.fail(e, "`is None` test of a %s" % type_name(ta))
            t = "match %s with None => true | Some _ => false end" % a
            return (t if isinstance(op, ast.Is) else "negb (%s)" % t), BOOL
        if isinstance(op, (ast.In, ast.NotIn)):
            a, ta = self.expr(e.left, env)
            if ta != STR or not isinstance(right, (ast.List, ast.Tuple)) or not right.elts or \
                    not all(isinstance(x, ast.Constant) and type(x.value) is str for x in right.elts):
                self.fail(e, "`in` is supported for a string and a literal list of string constants only")
            t = "s_in %s [%s]" % (_paren(a), "; ".join(str_lit(x.value) for x in right.elts))
            return (t if isinstance(op, ast.In) else "negb (%s)" % t), BOOL
        a, ta = self.expr(e.left, env)
        b, tb = self.expr(right, env)
        if NUM in (ta, tb):
            x, y = _paren(self.number(e, a, ta)), _paren(self.number(e, b, tb))
            table = {ast.Eq: "neqb O %s %s" % (x, y), ast.NotEq: "negb (neqb O %s %s)" % (x, y),
                     ast.Lt: "nltb O %s %s" % (x, y), ast.Gt: "nltb O %s %s" % (y, x),
                     ast.LtE: "negb (nltb O %s %s)" % (y, x), ast.GtE: "negb (nltb O %s %s)" % (x, y)}
        elif (ta, tb) == (INT, INT):
            x, y = _paren(a), _paren(b)
            table = {ast.Eq: "N.eqb %s %s" % (x, y), ast.NotEq: "negb (N.eqb %s %s)" % (x, y),
                     ast.Lt: "N.ltb %s %s" % (x, y), ast.Gt: "N.ltb %s %s" % (y, x),
                     ast.LtE: "N.leb %s %s" % (x, y), ast.GtE: "N.leb %s %s" % (y, x)}
        elif (ta, tb) == (STR, STR):
            x, y = _paren(a), _paren(b)
            table = {ast.Eq: "str_eqb %s %s" % (x, y), ast.NotEq: "negb (str_eqb %s %s)" % (x, y)}
        else:
            self.fail(e, "comparison of a %s with a %s" % (type_name(ta), type_name(tb)))
        if type(op) not in table:
            self.fail(e, "unsupported comparison operator")
        return table[type(op)], BOOL

    def truth(self, node, text, ty):
        if ty == BOOL:
            return text
        if ty == INT:
            return "negb (N.eqb %s 0)" % _paren(text)
        if ty == STR or (isinstance(ty, tuple) and ty[0] in ("list", "dict")):
            return "nonempty %s" % _paren(text)
        if isinstance(ty, tuple) and ty[0] == "opt":
            return "match %s with None => false | Some _ => true end" % text
        self.fail(node, "truth value of a %s" % type_name(ty))

    def cond(self, e, env):
        if isinstance(e, ast.UnaryOp) and isinstance(e.op, ast.Not):
            return "negb %s" % _paren(self.cond(e.operand, env))
        if isinstance(e, ast.BoolOp):
            parts = []
            for i, v in enumerate(e.values):
                n = len(self.pending)
                parts.append(_paren(self.cond(v, env)))
                if i > 0 and len(self.pending) != n:
                    self.fail(v, "an operation that can raise / a call in a later operand of and / or")
            return (" && " if isinstance(e.op, ast.And) else " || ").join(parts)
        # c.most_common(n): non-empty iff c is (n >= 1)
        if isinstance(e, ast.Call) and isinstance(e.func, ast.Attribute) and e.func.attr == "most_common" \
                and len(e.args) == 1 and not e.keywords and isinstance(e.args[0], ast.Constant) \
                and type(e.args[0].value) is int and e.args[0].value >= 1:
            c, tc = self.expr(e.func.value, env)
            if tc != CNT:
                self.fail(e, "most_common of a %s" % type_name(tc))
            return "nonempty (firstn %d (most_common %s))" % (e.args[0].value, _paren(c))
        t, ty = self.expr(e, env)
        return self.truth(e, t, ty)

    def pattern(self, target, ety, inner, owned=False):
        """loop / comprehension / unpacking target: a name or a flat tuple of names -> binder text"""
        if isinstance(target, ast.Name):
            return self.bind_var(target, target.id, ety, inner)
        if isinstance(target, ast.Tuple) and all(isinstance(x, ast.Name) for x in target.elts) \
                and isinstance(ety, tuple) and ety[0] == "tuple" and len(ety) - 1 == len(target.elts):
            ids = [x.id for x in target.elts if x.id != "_"]
            if len(set(ids)) != len(ids):
                self.fail(target, "a name occurs twice in the target")
            names = [self.bind_var(x, x.id, ty, inner) for x, ty in zip(target.elts, ety[1:])]
            return "'(" + ", ".join(names) + ")"
        self.fail(target, "unsupported target for a %s" % type_name(ety))

    def iter_list(self, node, it, env):
        """the list a `for` / comprehension iterates over -> (text, element type)"""
        if isinstance(it, ast.Call) and isinstance(it.func, ast.Attribute) and it.func.attr == "items" \
                and not it.args and not it.keywords:
            d, td = self.expr(it.func.value, env)
            if not (isinstance(td, tuple) and td[0] == "dict"):
                self.fail(node, "items() of a %s" % type_name(td))
            return d, TUP(td[1], td[2])
        l, tl = self.expr(it, env)
        if isinstance(tl, tuple) and tl[0] == "list":
            return l, tl[1]
        if isinstance(tl, tuple) and tl[0] == "dict":
            return "map fst %s" % _paren(l), tl[1]
        self.fail(node, "iteration over a %s" % type_name(tl))

    def listcomp(self, e, env):
        if len(e.generators) != 1 or e.generators[0].is_async:
            self.fail(e, "only one plain `for` clause is supported in a comprehension")
        g = e.generators[0]
        n = len(self.pending)
        l, ety = self.iter_list(e, g.iter, env)
        inner = env.copy()
        binder = self.pattern(g.target, ety, inner)
        for c in g.ifs:
            l = "filter (fun %s => %s) %s" % (binder, self.cond(c, inner), _paren(l))
        t, ty = self.expr(e.elt, inner)
        if len(self.pending) != n:
            self.fail(e, "an operation that can raise inside a comprehension")
        return "map (fun %s => %s) %s" % (binder, t, _paren(l)), LIST(ty)

    def call_args(self, node, spec, args, env):
        """arguments of a call of a translated function -> texts (coerced to the parameter types)"""
        if len(args) != len(spec["params"]):
            self.fail(node, "%d arguments, %s takes %d" % (len(args), spec["py"], len(spec["params"])))
        out = []
        for a, (n, ty) in zip(args, spec["params"]):
            t, ta = self.expr(a, env)
            out.append(_paren(self.coerce(a, t, ta, ty)))
        return out

    def call_text(self, spec, args):
        t = " ".join([spec["coq"]] + ([self.group.ctx_args] if self.group.ctx_args else []) + args)
        if spec.get("stateful"):
            if not self.stateful:
                raise TranslateError("internal: %s touches the file system, its caller does not" % spec["py"])
            return "callS %s" % _paren(t), True
        return "call %s" % _paren(t), False

    def call_expr(self, e, env):
        f = e.func
        d = dotted(f)
        if d == ("json", "dumps") and len(e.args) == 1 and not e.keywords:
            t, ty = self.expr(e.args[0], env)
            if ty == LIST(KEY):
                return "VNames %s" % _paren(t), CVAL
            if ty == LIST(STR):
                return "VNames (map KStr %s)" % _paren(t), CVAL
            if ty == OPAQUE:
                return "tt", OPAQUE
            self.fail(e, "json.dumps of a %s" % type_name(ty))
        if self.is_opaque_expr(e):
            return "tt", OPAQUE
        if d == ("str",) and len(e.args) == 1 and not e.keywords:
            t, ty = self.expr(e.args[0], env)
            return self.to_str(e, t, ty), STR
        if d == ("len",) and len(e.args) == 1 and not e.keywords:
            t, ty = self.expr(e.args[0], env)
            if ty == STR or (isinstance(ty, tuple) and ty[0] in ("list", "dict")):
                return "N.of_nat (length %s)" % _paren(t), INT
            self.fail(e, "len of a %s" % type_name(ty))
        if d == ("list",) and len(e.args) == 1 and not e.keywords:
            t, ty = self.expr(e.args[0], env)
            if isinstance(ty, tuple) and ty[0] == "dict":
                return "map fst %s" % _paren(t), LIST(ty[1])
            if isinstance(ty, tuple) and ty[0] == "list":
                return t, ty
            self.fail(e, "list() of a %s" % type_name(ty))
        if isinstance(f, ast.Attribute) and f.attr == "join" and isinstance(f.value, ast.Constant) and f.value.value == "" \
                and len(e.args) == 1 and not e.keywords:
            t, ty = self.expr(e.args[0], env)
            if ty not in (LIST(STR), LIST(UNKNOWN)):
                self.fail(e, "''.join of a %s" % type_name(ty))
            return "concat %s" % _paren(t), STR
        if d == ("os", "path", "join") and len(e.args) >= 2 and not e.keywords:
            t, ty = self.expr(e.args[0], env)
            if ty != PATH:
                self.fail(e, "os.path.join: the first argument is a %s, not a directory" % type_name(ty))
            for a in e.args[1:]:
                n, tn = self.expr(a, env)
                if tn != STR:
                    self.fail(a, "os.path.join with a %s" % type_name(tn))
                t = "path_join %s %s" % (_paren(t), _paren(n))
            return t, PATH
        if d is not None and len(d) == 1 and d[0] in self.group.ctx_funs and not e.keywords:
            params, ret = self.group.ctx_funs[d[0]]
            if len(e.args) != len(params):
                self.fail(e, "wrong number of arguments")
            args = []
            for a, ty in zip(e.args, params):
                t, ta = self.expr(a, env)
                args.append(_paren(self.coerce(a, t, ta, ty)))
            return "%s %s" % (d[0], " ".join(args)), ret
        if d is not None and len(d) == 1 and d[0] in self.group.done and not e.keywords:
            spec = self.group.done[d[0]]
            if spec.get("inout"):
                self.fail(e, "%s updates an argument in place: supported as a statement only" % d[0])
            args = self.call_args(e, spec, e.args, env)
            text, st = self.call_text(spec, args)
            return self.push(text, st), spec["ret"]
        if d == ("ConfigParser",) and not e.args and not e.keywords and self.group.name == "config":
            return "(@nil (TextFile.str * list (TextFile.str * cval)))", CONFIG
        self.fail(e, "unsupported call")

    # -------------------------------------------------------------- statements
    @staticmethod
    def terminates(stmts):
        if not stmts:
            return False
        s = stmts[-1]
        if isinstance(s, (ast.Return, ast.Raise)):
            return True
        if isinstance(s, ast.If):
            return FnTr.terminates(s.body) and FnTr.terminates(s.orelse)
        return False

    def is_dropped(self, s):
        """a statement without effect on the result: docstring, pass, print(..) / print_statistics(..) of pure arguments"""
        if isinstance(s, ast.Pass):
            return True
        if isinstance(s, ast.Expr) and isinstance(s.value, ast.Constant):
            return True
        if isinstance(s, ast.Expr) and isinstance(s.value, ast.Call) and isinstance(s.value.func, ast.Name) \
                and s.value.func.id in ("print", "print_statistics"):
            c = s.value
            for a in list(c.args) + [kw.value for kw in c.keywords]:
                for n in ast.walk(a):
                    if isinstance(n, ast.Call):
                        if not (isinstance(n.func, ast.Name) and n.func.id == "str"):
                            return False
                    elif not isinstance(n, (ast.Constant, ast.Name, ast.JoinedStr, ast.FormattedValue, ast.Load,
                                            ast.BinOp, ast.Add, ast.Attribute, ast.Subscript, ast.FloorDiv)):
                        return False
            return True
        return False

    def assigned(self, stmts, env):
        """python-level variables (re)bound or mutated somewhere in stmts, in order of first occurrence"""
        out = []

        def add(n):
            if n is not None and n not in out:
                out.append(n)

        def base_var(t):
            m = self.mapped_var(t)
            if m is not None:
                return m
            if isinstance(t, ast.Name):
                return t.id
            return None

        def target(t):
            if isinstance(t, ast.Name) or self.mapped_var(t) is not None:
                add(base_var(t))
            elif isinstance(t, ast.Subscript):
                b = base_var(t.value)
                if b is None:
                    self.fail(t, "unsupported assignment target")
                add(b)
            elif isinstance(t, ast.Tuple):
                for x in t.elts:
                    target(x)
            else:
                self.fail(t, "unsupported assignment target")

        for s in stmts:
            for n in ast.walk(s):
                if isinstance(n, ast.Assign):
                    for t in n.targets:
                        target(t)
                elif isinstance(n, (ast.AugAssign, ast.AnnAssign)):
                    target(n.target)
                elif isinstance(n, ast.For):
                    target(n.target)
                elif isinstance(n, ast.With):
                    for it in n.items:
                        if it.optional_vars is not None:
                            target(it.optional_vars)
                elif isinstance(n, ast.ExceptHandler):
                    if n.name:
                        add(n.name)
                elif isinstance(n, (ast.NamedExpr, ast.Delete, ast.Global, ast.Nonlocal, ast.Import, ast.ImportFrom,
                                    ast.FunctionDef, ast.ClassDef, ast.Lambda, ast.SetComp, ast.DictComp, ast.While,
                                    ast.Assert, ast.Yield, ast.YieldFrom, ast.Await, ast.AsyncFor, ast.AsyncWith,
                                    ast.Starred, ast.GeneratorExp, ast.Break, ast.Continue)):
                    self.fail(n, "unsupported construct (%s)" % type(n).__name__)
                elif isinstance(n, ast.Call):
                    f = n.func
                    if isinstance(f, ast.Attribute) and f.attr in ("append", "extend", "insert", "pop", "remove", "clear",
                                                                   "sort", "reverse", "update", "setdefault", "add_section",
                                                                   "set", "subtract", "popitem"):
                        b = base_var(f.value)
                        if b is None:
                            self.fail(n, "mutation of something that is not a variable")
                        add(b)
                    d = dotted(f)
                    if d is not None and len(d) == 1 and d[0] in self.group.done:
                        spec = self.group.done[d[0]]
                        for a, (pn, _) in zip(n.args, spec["params"]):
                            if pn in spec.get("inout", []):
                                add(base_var(a))
        return out

    def seq(self, ind, text, rest_text, s=None):
        """pending binds, then `text` (a let / bind line, or empty), then the rest"""
        pre, n = self.flush(ind)
        out = pre + (self.line(ind, text, s) if text else "") + (rest_text() if callable(rest_text) else rest_text)
        return _close(out, ")" * n) if n else out

    def result_text(self, env, retval):
        """the value a `return retval` / falling off the end gives the caller"""
        inout = [env.names[n] for n in self.spec.get("inout", [])]
        parts = ([retval] if retval is not None else []) + inout
        if not parts:
            return "tt"
        if len(parts) == 1:
            return parts[0]
        return "(" + ", ".join(parts) + ")"

    def block(self, stmts, env, k, ind):
        stmts = list(stmts)
        while stmts and self.is_dropped(stmts[0]):
            stmts.pop(0)
        if not stmts:
            return self.line(ind, k["fall"](env))
        s, rest = stmts[0], stmts[1:]
        if self.pending:
            self.fail(s, "internal: pending partial computation")
        if isinstance(s, ast.Return):
            if any(not self.is_dropped(r) for r in rest):
                self.fail(rest[0], "statement after return")
            text = k["ret"](s, env)
            return self.seq(ind, text, "", s)
        if isinstance(s, ast.Raise):
            if any(not self.is_dropped(r) for r in rest):
                self.fail(rest[0], "statement after raise")
            exc = s.exc.func if isinstance(s.exc, ast.Call) else s.exc
            if s.cause is not None or not isinstance(exc, ast.Name) or exc.id not in EXN_NAMES:
                self.fail(s, "unsupported raise")
            if isinstance(s.exc, ast.Call):
                for a in s.exc.args:
                    if not self.is_opaque_expr(a):
                        self.fail(s, "unsupported argument of the exception")
            return self.line(ind, "%s %s" % (self.S("Exc"), EXN_NAMES[exc.id]), s)
        if isinstance(s, ast.Assign):
            return self.assign(s, rest, env, k, ind)
        if isinstance(s, ast.AugAssign):
            return self.augassign(s, rest, env, k, ind)
        if isinstance(s, ast.Expr):
            return self.effect(s, rest, env, k, ind)
        if isinstance(s, ast.If):
            return self.if_(s, rest, env, k, ind)
        if isinstance(s, ast.For):
            return self.for_(s, rest, env, k, ind)
        if isinstance(s, ast.Try):
            return self.try_(s, rest, env, k, ind)
        if isinstance(s, ast.With):
            return self.with_(s, rest, env, k, ind)
        self.fail(s, "unsupported statement (%s)" % type(s).__name__)

    # ----- calls of translated functions as statements
    def fn_call(self, node, call, env, result_target):
        """f(args) of a translated function -> (monadic text, stateful?, binder text); rebinds the variables
        passed for parameters f updates in place and, when result_target is given, the target of the result"""
        spec = self.group.done[call.func.id]
        if call.keywords:
            self.fail(node, "keyword arguments are not supported")
        args = self.call_args(node, spec, call.args, env)
        inout_vars = []
        for a, (pn, ty) in zip(call.args, spec["params"]):
            if pn in spec.get("inout", []):
                v = self.var_of(a, env)
                if v is None or v not in env.owned:
                    self.fail(a, "%s updates this argument in place: it must be a variable the caller owns" % spec["py"])
                if v in inout_vars:
                    self.fail(a, "the same object is passed twice for parameters updated in place")
                inout_vars.append(v)
        text, st = self.call_text(spec, args)
        binders = []
        if spec["ret"] != UNIT:
            if result_target is None:
                binders.append("_")
            else:
                binders.append(self.pattern(result_target, spec["ret"], env).lstrip("'"))
        for v in inout_vars:
            binders.append(env.names[v])
        if not binders:
            b = "_"
        elif len(binders) == 1:
            b = ("'" + binders[0]) if binders[0].startswith("(") else binders[0]
        else:
            b = "'(" + ", ".join(binders) + ")"
        return text, st, b

    def is_fn_call(self, e):
        return isinstance(e, ast.Call) and isinstance(e.func, ast.Name) and e.func.id in self.group.done

    def bind_line(self, text, st, binder):
        if self.stateful:
            m = text if st else "liftS %s" % _paren(text)
            return "bindS %s (fun %s =>" % (_paren(m), binder)
        return "bind %s (fun %s =>" % (_paren(text), binder)

    # ----- assignments
    def mutable(self, node, v, env):
        if v is None or v not in env.owned:
            self.fail(node, "mutation is supported on a local object the function owns / a parameter the "
                            "specification lists as updated in place only")

    @staticmethod
    def stored_objects(v):
        """the sub-expressions of v whose value (the object itself, not a copy or a function of it) ends up in
        the value of v: v itself, the items of displays, the branches of a conditional expression"""
        out, todo = [], [v]
        while todo:
            e = todo.pop()
            out.append(e)
            if isinstance(e, (ast.List, ast.Tuple, ast.Set)):
                todo += list(e.elts)
            elif isinstance(e, ast.Dict):
                todo += [x for x in e.values if x is not None]
            elif isinstance(e, ast.IfExp):
                todo += [e.body, e.orelse]
        return out

    def assign(self, s, rest, env, k, ind):
        if len(s.targets) != 1:
            self.fail(s, "multiple assignment targets")
        t, v = s.targets[0], s.value
        tv = self.mapped_var(t)
        if isinstance(t, (ast.Name, ast.Tuple)) or tv is not None:
            if self.is_fn_call(v) and self.group.done[v.func.id].get("inout") or \
                    (self.is_fn_call(v) and isinstance(t, ast.Tuple)):
                if tv is not None:
                    self.fail(s, "unsupported assignment target")
                text, st, b = self.fn_call(s, v, env, t)
                line = self.bind_line(text, st, b)
                pre, n = self.flush(ind)
                out = pre + self.line(ind, line, s) + self.block(rest, env, k, ind)
                return _close(out, ")" * (n + 1))
            text, ty = self.expr(v, env)
            owned = isinstance(v, (ast.List, ast.Dict, ast.ListComp)) or \
                (isinstance(v, ast.Call) and dotted(v.func) in (("list",), ("ConfigParser",)))
            for m in self.stored_objects(v):    # an alias (also inside a display): the aliased object may no longer be
                src = self.var_of(m, env)       # mutated through its old name, nor through the new one
                if src is not None and (env.types[src] == CONFIG or
                                        (isinstance(env.types[src], tuple) and env.types[src][0] in ("list", "dict"))):
                    env.owned.discard(src)
                    if m is v:
                        owned = False
            if isinstance(t, ast.Tuple):
                if not (isinstance(ty, tuple) and ty[0] == "tuple"):
                    self.fail(s, "unpacking of a %s" % type_name(ty))
                b = self.pattern(t, ty, env)
                return self.seq(ind, "let %s := %s in" % (b, text), lambda: self.block(rest, env, k, ind), s)
            name = tv if tv is not None else t.id
            if tv is not None:
                if ty != env.types[tv]:
                    text = self.coerce(s, text, ty, env.types[tv])
                    ty = env.types[tv]
                c = env.names[tv]
                if not owned:
                    env.owned.discard(tv)
            else:
                c = self.bind_var(t, name, ty, env, owned)
            return self.seq(ind, "let %s := %s in" % (c, text), lambda: self.block(rest, env, k, ind), s)
        if isinstance(t, ast.Subscript):
            d = self.var_of(t.value, env)
            self.mutable(s, d, env)
            td = env.types[d]
            cd = env.names[d]
            # counter[k] = counter[k] + n  (also n + counter[k]) on a Counter of ints: the spelling of counter[k] += n
            # (a Counter gives 0 for a missing key; the key expression is pure and evaluated twice)
            if td == ICNT and isinstance(v, ast.BinOp) and isinstance(v.op, ast.Add):
                same = [x for x in (v.left, v.right) if isinstance(x, ast.Subscript)
                        and ast.dump(x.value) == ast.dump(t.value).replace("Store()", "Load()")
                        and ast.dump(x.slice) == ast.dump(t.slice) and ast.dump(x).count("Call(") == 0]
                if same:
                    other = v.right if same[0] is v.left else v.left
                    key, tk = self.expr(t.slice, env)
                    if tk == OPT(STR):
                        key, tk = "key_of_opt %s" % _paren(key), STR
                    n, tn = self.expr(other, env)
                    if tk != STR or tn != INT:
                        self.fail(s, "counter[%s] = counter[..] + %s" % (type_name(tk), type_name(tn)))
                    return self.seq(ind, "let %s := cnt_add %s %s %s in" % (cd, _paren(key), _paren(n), cd),
                                    lambda: self.block(rest, env, k, ind), s)
            if isinstance(td, tuple) and td[0] == "dict":
                key, tk = self.expr(t.slice, env)
                val, tval = self.expr(v, env)
                if td == DICT(UNKNOWN, UNKNOWN):
                    td = DICT(KEY if tk in (STR, INT, KEY) else tk, tval)
                    env.types[d] = td
                if td[1] == STR:
                    if tk == OPT(STR):
                        key, tk = "key_of_opt %s" % _paren(key), STR
                    if tk != STR:
                        self.fail(s, "a %s as the key of a Counter" % type_name(tk))
                    line = "let %s := dict_set %s %s %s in" % (cd, _paren(key), _paren(self.coerce(s, val, tval, td[2])), cd)
                elif td[1] == KEY:
                    line = "let %s := kdict_set %s %s %s in" % (cd, _paren(self.coerce(s, key, tk, KEY)),
                                                              _paren(self.coerce(s, val, tval, td[2])), cd)
                else:
                    self.fail(s, "store into a %s" % type_name(td))
                src = self.var_of(v, env)
                if src is not None:
                    env.owned.discard(src)
                return self.seq(ind, line, lambda: self.block(rest, env, k, ind), s)
            if isinstance(td, tuple) and td[0] == "list":
                i, ti = self.expr(t.slice, env)
                val, tval = self.expr(v, env)
                if ti != INT:
                    self.fail(s, "a %s as a list index" % type_name(ti))
                if td[1] == UNKNOWN:
                    self.fail(s, "item assignment on an empty list")
                pre, n = self.flush(ind)
                m = "list_store %s %s %s" % (cd, _paren(i), _paren(self.coerce(s, val, tval, td[1])))
                out = pre + self.line(ind, self.bind_line(m, False, cd), s) + self.block(rest, env, k, ind)
                return _close(out, ")" * (n + 1))
            self.fail(s, "item assignment on a %s" % type_name(td))
        self.fail(s, "unsupported assignment target")

    def augassign(self, s, rest, env, k, ind):
        t = s.target
        if not isinstance(s.op, ast.Add):
            self.fail(s, "only += is supported")
        x = self.var_of(t, env)
        if x is not None:
            v, tv = self.expr(s.value, env)
            tx, cx = env.types[x], env.names[x]
            if (tx, tv) == (STR, STR):
                text = "%s ++ %s" % (cx, _paren(v))
            elif (tx, tv) == (INT, INT):
                text = "%s + %s" % (cx, _paren(v))
            elif tx == NUM:
                text = "nadd O %s %s" % (cx, _paren(self.number(s, v, tv)))
            else:
                self.fail(s, "+= of a %s to a %s" % (type_name(tv), type_name(tx)))
            return self.seq(ind, "let %s := %s in" % (cx, text), lambda: self.block(rest, env, k, ind), s)
        if isinstance(t, ast.Subscript):
            d = self.var_of(t.value, env)
            self.mutable(s, d, env)
            if env.types[d] != ICNT:
                self.fail(s, "d[k] += n is supported on a Counter of ints only")
            key, tk = self.expr(t.slice, env)
            if tk == OPT(STR):
                key, tk = "key_of_opt %s" % _paren(key), STR
            n, tn = self.expr(s.value, env)
            if tk != STR or tn != INT:
                self.fail(s, "counter[%s] += %s" % (type_name(tk), type_name(tn)))
            cd = env.names[d]
            return self.seq(ind, "let %s := cnt_add %s %s %s in" % (cd, _paren(key), _paren(n), cd),
                            lambda: self.block(rest, env, k, ind), s)
        self.fail(s, "unsupported target of +=")

    # ----- expression statements
    def effect(self, s, rest, env, k, ind):
        c = s.value
        if not isinstance(c, ast.Call):
            self.fail(s, "unsupported expression statement")
        f = c.func
        d = dotted(f)
        if self.is_fn_call(c):
            text, st, b = self.fn_call(s, c, env, None)
            pre, n = self.flush(ind)
            out = pre + self.line(ind, self.bind_line(text, st, b), s) + self.block(rest, env, k, ind)
            return _close(out, ")" * (n + 1))
        if d in (("os", "unlink"), ("os", "remove")) and len(c.args) == 1 and not c.keywords:
            if not self.stateful:
                self.fail(s, "file system access in a function the translator treats as pure")
            p, tp = self.expr(c.args[0], env)
            if tp != PATH:
                self.fail(s, "os.unlink of a %s" % type_name(tp))
            pre, n = self.flush(ind)
            out = pre + self.line(ind, "bindS (os_unlink %s) (fun _ =>" % _paren(p), s) + self.block(rest, env, k, ind)
            return _close(out, ")" * (n + 1))
        if isinstance(f, ast.Attribute):
            recv = self.var_of(f.value, env)
            if recv is None:
                self.fail(s, "unsupported call statement")
            tr, cr = env.types[recv], env.names[recv]
            if tr == HANDLE and f.attr == "write" and len(c.args) == 1 and not c.keywords:
                t, ty = self.expr(c.args[0], env)
                if ty != STR:
                    self.fail(s, "write of a %s" % type_name(ty))
                pre, n = self.flush(ind)
                out = pre + self.line(ind, "bindS (fwrite encb %s %s) (fun _ =>" % (cr, _paren(t)), s) \
                    + self.block(rest, env, k, ind)
                return _close(out, ")" * (n + 1))
            if f.attr == "clear" and not c.args and not c.keywords and isinstance(tr, tuple) and tr[0] in ("dict", "list"):
                self.mutable(s, recv, env)
                return self.seq(ind, "let %s := [] in" % cr, lambda: self.block(rest, env, k, ind), s)
            if f.attr == "append" and len(c.args) == 1 and not c.keywords and isinstance(tr, tuple) and tr[0] == "list":
                self.mutable(s, recv, env)
                t, ty = self.expr(c.args[0], env)
                if tr[1] == UNKNOWN:
                    env.types[recv] = tr = LIST(ty)
                t = self.coerce(s, t, ty, tr[1])
                src = self.var_of(c.args[0], env)
                if src is not None:
                    env.owned.discard(src)
                return self.seq(ind, "let %s := %s ++ [%s] in" % (cr, cr, t), lambda: self.block(rest, env, k, ind), s)
            if tr == CONFIG and f.attr == "add_section" and len(c.args) == 1 and not c.keywords:
                self.mutable(s, recv, env)
                t, ty = self.expr(c.args[0], env)
                if ty != STR:
                    self.fail(s, "add_section of a %s" % type_name(ty))
                pre, n = self.flush(ind)
                out = pre + self.line(ind, self.bind_line("cfg_add_section %s %s" % (_paren(t), cr), False, cr), s) \
                    + self.block(rest, env, k, ind)
                return _close(out, ")" * (n + 1))
            if tr == CONFIG and f.attr == "set" and len(c.args) == 3 and not c.keywords:
                self.mutable(s, recv, env)
                a, ta = self.expr(c.args[0], env)
                b, tb = self.expr(c.args[1], env)
                if (ta, tb) != (STR, STR):
                    self.fail(s, "config.set with a %s section and a %s option" % (type_name(ta), type_name(tb)))
                v, tv = self.expr(c.args[2], env)
                v = self.coerce(c.args[2], v, tv, CVAL)
                pre, n = self.flush(ind)
                out = pre + self.line(ind, self.bind_line("cfg_set %s %s %s %s" % (_paren(a), _paren(b), _paren(v), cr),
                                                          False, cr), s) + self.block(rest, env, k, ind)
                return _close(out, ")" * (n + 1))
        self.fail(s, "unsupported call statement")

    # ----- conditionals
    def none_test(self, test, env):
        """`e is None` / `e is not None` -> (e, the then-branch is the None case), else None"""
        if isinstance(test, ast.Compare) and len(test.ops) == 1 and isinstance(test.ops[0], (ast.Is, ast.IsNot)) \
                and isinstance(test.comparators[0], ast.Constant) and test.comparators[0].value is None:
            return test.left, isinstance(test.ops[0], ast.Is)
        return None

    def join_k(self, names, k):
        """continuation of a block whose fall-through hands the variables `names` to what follows"""
        return {"fall": lambda env2: "%s %s" % (self.S("Norm"), _paren(self.tuple_text([env2.names[n] for n in names])[0])),
                "ret": k["ret"]}

    def after_join(self, node, env, inners, names):
        """types / ownership after the branches `inners` joined"""
        for n in names:
            tys = {type_name(i.types[n]) for i in inners}
            if len(tys) != 1:
                self.fail(node, "%r has different types on the paths that join here" % n)
            env.types[n] = inners[0].types[n]
        for n in list(env.owned):
            if any(n not in i.owned for i in inners):
                env.owned.discard(n)

    def if_(self, s, rest, env, k, ind):
        body, orelse = list(s.body), list(s.orelse)
        bt, et = self.terminates(body), self.terminates(orelse)
        env_t, env_f = env.copy(), env.copy()
        nt = self.none_test(s.test, env)
        pre, npre = "", 0
        if nt is not None:
            x, then_is_none = nt
            t, ty = self.expr(x, env)
            if not (isinstance(ty, tuple) and ty[0] == "opt"):
                self.fail(s, "`is None` test of a %s" % type_name(ty))
            pre, npre = self.flush(ind)
            v = self.gensym()
            (env_f if then_is_none else env_t).refine[ast.dump(x)] = (v, ty[1])
            if then_is_none:
                head, mid, tail = "match %s with None =>" % t, "| Some %s =>" % v, " end"
            else:
                head, mid, tail = "match %s with Some %s =>" % (t, v), "| None =>", " end"
        else:
            c = self.cond(s.test, env)
            pre, npre = self.flush(ind)
            head, mid, tail = "if %s then" % c, "else", ""
        if bt or et or not any(not self.is_dropped(r) for r in rest):
            if bt and et and any(not self.is_dropped(r) for r in rest):
                self.fail(rest[0], "unreachable statement")
            then_stmts = body if bt else body + rest
            else_stmts = orelse if et else orelse + rest
            out = pre + self.line(ind, head, s) + self.block(then_stmts, env_t, k, ind + 1) + self.line(ind, mid)
            out += self.block(else_stmts, env_f, k, ind + (1 if tail else 0) if bt else ind + 1)
            return _close(out, tail + ")" * npre)
        names = self.state([n for n in self.assigned(body + orelse, env) if n in env.types], env)
        jk = self.join_k(names, k)
        out = pre + self.line(ind, "%s (%s" % (self.S("bind"), head), s)
        out += self.block(body, env_t, jk, ind + 2)
        out += self.line(ind + 1, mid)
        out += _close(self.block(orelse, env_f, jk, ind + 2), tail + ") (fun %s =>" %
                      self.tuple_text([env.names[n] for n in names])[1])
        self.after_join(s, env, [env_t, env_f], names)
        out += self.block(rest, env, k, ind)
        return _close(out, ")" * (npre + 1))

    # ----- loops
    def for_(self, s, rest, env, k, ind):
        if s.orelse:
            self.fail(s, "for ... else is not supported")
        body = list(s.body)
        names = self.state([n for n in self.assigned(body, env) if n in env.types], env)
        tup, pat = self.tuple_text([env.names[n] for n in names])
        inner = env.copy()
        it = s.iter
        pre_walk = None
        if isinstance(it, ast.Call) and dotted(it.func) == ("os", "walk") and len(it.args) == 1 and not it.keywords:
            if not self.stateful:
                self.fail(s, "file system access in a function the translator treats as pure")
            p, tp = self.expr(it.args[0], env)
            if tp != PATH:
                self.fail(s, "os.walk of a %s" % type_name(tp))
            w = self.gensym()
            pre_walk = "bindS (os_walk %s) (fun %s =>" % (_paren(p), w)
            l, ety = w, TUP(PATH, LIST(STR), LIST(STR))
            binder = self.pattern(s.target, ety, inner)
            head = "%s %s (fun %s %s =>" % (self.S("for_each"), l, binder, pat)
        elif isinstance(it, ast.Call) and dotted(it.func) == ("enumerate",) and len(it.args) == 1 and not it.keywords:
            if not (isinstance(s.target, ast.Tuple) and len(s.target.elts) == 2
                    and all(isinstance(x, ast.Name) for x in s.target.elts)):
                self.fail(s, "enumerate needs the target `pos, item`")
            if self.stateful:
                self.fail(s, "enumerate is not supported in a function that touches the file system")
            lv = self.var_of(it.args[0], env)
            if lv is not None and lv in names:
                self.only_item_stores(s, lv, env)
                ety = env.types[lv][1]
                pos = self.bind_var(s.target.elts[0], s.target.elts[0].id, INT, inner)
                x = self.bind_var(s.target.elts[1], s.target.elts[1].id, ety, inner)
                head = "for_enum_cur %s %s (fun %s => %s) (fun %s %s %s =>" % (
                    self.default_of(s, ety), env.names[lv], pat, env.names[lv], pos, x, pat)
            else:
                l, ety = self.iter_list(s, it.args[0], env)
                pos = self.bind_var(s.target.elts[0], s.target.elts[0].id, INT, inner)
                x = self.bind_var(s.target.elts[1], s.target.elts[1].id, ety, inner)
                head = "for_enum %s (fun %s %s %s =>" % (_paren(l), pos, x, pat)
        else:
            lv = self.var_of(it, env)
            if lv is not None and lv in names:
                self.fail(s, "the iterated object is assigned or mutated in the loop")
            if isinstance(it, ast.Call) and isinstance(it.func, ast.Attribute) and it.func.attr == "items":
                lv = self.var_of(it.func.value, env)
                if lv is not None and lv in names:
                    self.fail(s, "the iterated object is assigned or mutated in the loop")
            l, ety = self.iter_list(s, it, env)
            binder = self.pattern(s.target, ety, inner)
            head = "%s %s (fun %s %s =>" % (self.S("for_each"), _paren(l), binder, pat)
        for t in ([s.target] if isinstance(s.target, ast.Name) else s.target.elts):
            if t.id in names:
                self.fail(s, "the loop variable %r is assigned in the loop" % t.id)
            if t.id in env.types:
                self.fail(s, "the loop variable %r is already bound" % t.id)
        pre, npre = self.flush(ind)
        out = pre
        if pre_walk:
            out += self.line(ind, pre_walk, s)
            npre += 1
        out += self.line(ind, "%s (%s" % (self.S("bind"), head), s)
        out += _close(self.block(body, inner, self.join_k(names, k), ind + 2), ") %s) (fun %s =>" % (tup, pat))
        self.after_join(s, env, [inner], names)
        out += self.block(rest, env, k, ind)
        return _close(out, ")" * (npre + 1))

    def only_item_stores(self, s, lv, env):
        """the body of the loop touches the iterated list only by `l[j] = e`"""
        for st in s.body:
            for n in ast.walk(st):
                if isinstance(n, (ast.Assign, ast.AugAssign)):
                    for t in (n.targets if isinstance(n, ast.Assign) else [n.target]):
                        if self.var_of(t, env) == lv:
                            self.fail(n, "the iterated list is rebound in the loop")
                        if isinstance(n, ast.AugAssign) and isinstance(t, ast.Subscript) and self.var_of(t.value, env) == lv:
                            self.fail(n, "augmented item assignment on the iterated list")
                if isinstance(n, ast.Call) and isinstance(n.func, ast.Attribute) and self.var_of(n.func.value, env) == lv:
                    self.fail(n, "the iterated list is mutated by a method call in the loop")
        if lv not in env.owned:
            self.fail(s, "the iterated list is assigned in the loop but is not a local list the function owns")

    def default_of(self, node, ty):
        d = {KEY: "(KInt 0)", STR: "(@nil N)", INT: "0"}
        if ty not in d:
            self.fail(node, "no default value of type %s" % type_name(ty))
        return d[ty]

    # ----- try / with
    def try_(self, s, rest, env, k, ind):
        if s.orelse or s.finalbody or len(s.handlers) != 1:
            self.fail(s, "only try: .. except Exception: .. is supported")
        h = s.handlers[0]
        if not (h.type is None or (isinstance(h.type, ast.Name) and h.type.id in ("Exception", "BaseException"))):
            self.fail(h, "only `except Exception` / a bare except is supported")
        body, hbody = list(s.body), list(h.body)
        ht = self.terminates(hbody)
        in_body = self.assigned(body, env)
        names = self.state([n for n in in_body if n in env.types], env)
        env_b, env_h = env.copy(), env.copy()
        for n in in_body:                       # the handler cannot know how far the body got
            if n in env_h.types:
                del env_h.types[n]
        e = self.bind_var(h, h.name, EXN, env_h) if h.name else "_"
        jk = self.join_k(names, k)
        if not ht:
            missing = [n for n in names if n not in self.assigned(hbody, env)]
            if missing:
                self.fail(h, "the handler falls through without assigning %r, which the body assigns" % missing)
        out = self.line(ind, "%s (%s (" % (self.S("bind"), self.S("try_except")), s)
        out += _close(self.block(body, env_b, jk, ind + 2), ") (fun %s =>" % e)
        out += _close(self.block(hbody, env_h, jk, ind + 2), ")) (fun %s =>" %
                      self.tuple_text([env.names[n] for n in names])[1])
        for n in names:
            if n not in env_h.types:
                env_h.types[n] = env_b.types[n]
                env_h.names[n] = env.names[n]
        self.after_join(s, env, [env_b] + ([] if ht else [env_h]), names)
        out += self.block(rest, env, k, ind)
        return _close(out, ")")

    def with_(self, s, rest, env, k, ind):
        if len(s.items) != 1 or not isinstance(s.items[0].optional_vars, ast.Name):
            self.fail(s, "only `with codecs.open(..) as name:` is supported")
        c = s.items[0].context_expr
        if not self.stateful:
            self.fail(s, "file system access in a function the translator treats as pure")
        if not (isinstance(c, ast.Call) and dotted(c.func) == ("codecs", "open")):
            self.fail(s, "only codecs.open is supported in a with statement")
        kw = {x.arg: x.value for x in c.keywords}
        args = list(c.args)
        if None in kw or set(kw) - {"encoding", "mode"} or not (1 <= len(args) <= 3):
            self.fail(s, "unsupported arguments of codecs.open")
        mode = args[1] if len(args) > 1 else kw.get("mode")
        enc = args[2] if len(args) > 2 else kw.get("encoding")
        if (len(args) > 1 and "mode" in kw) or (len(args) > 2 and "encoding" in kw) or enc is None \
                or not (isinstance(mode, ast.Constant) and mode.value in ("w", "wt")):
            self.fail(s, "codecs.open must be called with mode 'w' and an encoding")
        p, tp = self.expr(args[0], env)
        en, te = self.expr(enc, env)
        if tp != PATH or te != STR:
            self.fail(s, "codecs.open of a %s with encoding %s" % (type_name(tp), type_name(te)))
        body = list(s.body)
        names = self.state([n for n in self.assigned(body, env) if n in env.types], env)
        inner = env.copy()
        hname = self.bind_var(s, s.items[0].optional_vars.id, HANDLE, inner)
        if s.items[0].optional_vars.id in env.types:
            self.fail(s, "the file variable is already bound")
        pre, npre = self.flush(ind)
        out = pre + self.line(ind, "bindS (with_open_w %s %s (fun %s =>" % (_paren(p), _paren(en), hname), s)
        out += _close(self.block(body, inner, self.join_k(names, k), ind + 2), ")) (fun %s =>" %
                      self.tuple_text([env.names[n] for n in names])[1])
        self.after_join(s, env, [inner], names)
        out += self.block(rest, env, k, ind)
        return _close(out, ")" * (npre + 1))

    # -------------------------------------------------------------- function / slice
    def check_signature(self):
        fn, spec = self.fn, self.spec
        a = fn.args
        if fn.decorator_list or a.vararg or a.kwarg or a.kwonlyargs or a.posonlyargs or a.kw_defaults or a.defaults:
            self.fail(fn, "unsupported signature")
        names = [x.arg for x in a.args]
        want = [n for n, _ in spec["params"]]
        if names != want:
            self.fail(fn, "parameters are %r, the translator knows %r" % (names, want))
        if any(x.annotation is not None for x in a.args) or fn.returns is not None:
            self.fail(fn, "annotations are not supported")

    def result_type(self):
        spec = self.spec
        parts = ([spec["ret"]] if spec["ret"] != UNIT else []) + [ty for n, ty in self.all_params() if n in spec.get("inout", [])]
        if not parts:
            return UNIT
        if len(parts) == 1:
            return parts[0]
        return TUP(*parts)

    def all_params(self):
        return list(self.spec["params"]) + list(self.spec.get("slice_params", []))

    def translate(self, stmts=None):
        spec = self.spec
        slice_mode = stmts is not None
        if not slice_mode:
            self.check_signature()
            stmts = list(self.fn.body)
        env = Env()
        binders = []
        for n, ty in self.all_params():
            if n in self.opaque_params:
                binders.append("(%s : unit)" % n)
                continue
            c = self.bind_var(self.fn, n, ty, env, owned=n in spec.get("inout", []))
            binders.append("(%s : %s)" % (c, coq_type(ty)))
        ret = spec["ret"]

        def k_ret(s, env2):
            if s.value is None or (isinstance(s.value, ast.Constant) and s.value.value is None):
                if ret != UNIT:
                    self.fail(s, "returns None, the translator expects a %s" % type_name(ret))
                v = None
            else:
                t, ty = self.expr(s.value, env2)
                v = _paren(self.coerce(s, t, ty, ret))
            if spec.get("slice_return_plain"):
                return "%s %s" % (self.S("Retn"), v)
            return "%s %s" % (self.S("Retn"), _paren(self.result_text(env2, v)))

        def k_fall(env2):
            if ret != UNIT and not spec.get("slice_return_plain"):
                self.fail(self.fn, "the function can end without a return statement")
            return "%s %s" % (self.S("Norm"), _paren(self.result_text(env2, None)))

        body = self.block(stmts, env, {"fall": k_fall, "ret": k_ret}, 1)
        dump = "\n".join(ast.dump(s, include_attributes=False) for s in stmts)
        sha = hashlib.sha256(dump.encode("utf-8")).hexdigest()
        out = "(* %s  %sdef %s  lines %d-%d\n   sha256 of the ast.dump of the translated statements: %s%s *)\n" % (
            self.rel, self.owner and ("class %s  " % self.owner.rstrip(".")), self.fn.name,
            stmts[0].lineno if stmts else self.fn.lineno, stmts[-1].end_lineno if stmts else self.fn.end_lineno, sha,
            ("\n   " + spec["note"]) if spec.get("note") else "")
        rty = coq_type(self.result_type())
        if spec.get("slice_return_plain"):
            full = "out %s %s" % (_paren(coq_type(ret)), _paren(rty if ret == UNIT else
                                                               coq_type(self.slice_state_type())))
            wrap = ""
        elif self.stateful:
            full, wrap = "fsys -> res %s * fsys" % _paren(rty), "run_fnS ("
        else:
            full, wrap = "res %s" % _paren(rty), "run_fn ("
        out += "Definition %s %s : %s :=\n" % (
            spec["coq"], " ".join(([self.group.ctx_binders] if self.group.ctx_binders else []) + binders), full)
        if wrap:
            out += "  " + wrap + "\n" + _close(body, ").")
        else:
            out += _close(body, ".")
        return out

    def slice_state_type(self):
        parts = [ty for n, ty in self.all_params() if n in self.spec.get("inout", [])]
        if not parts:
            return UNIT
        return parts[0] if len(parts) == 1 else TUP(*parts)


PARSER_FIELDS = {
    "count_keyboard": KCNTS, "count_emails": CNT, "count_email_providers": CNT, "count_website_urls": CNT,
    "count_website_hosts": CNT, "count_website_prefixes": CNT, "count_years": CNT, "count_context_sensitive": CNT,
    "count_alpha": KCNTS, "count_alpha_masks": KCNTS, "count_digits": KCNTS, "count_other": KCNTS,
    "count_base_structures": CNT, "count_raw_base_structures": CNT, "count_prince": CNT,
}


class Group:
    def __init__(self, name, ctx_binders, ctx_args, ctx_funs):
        self.name, self.ctx_binders, self.ctx_args, self.ctx_funs = name, ctx_binders, ctx_args, ctx_funs
        self.done = {}


# ====================================================================== shared file handling
def parse(repo, rel):
    repo = repo or common.REPO
    path = os.path.join(repo, rel)
    with open(path, encoding="utf-8", newline="") as f:
        src = f.read()
    return path, ast.parse(src, filename=path)


def defs_of(path, body):
    defs = {}
    for n in body:
        if isinstance(n, (ast.FunctionDef, ast.AsyncFunctionDef)):
            if n.name in defs:
                raise TranslateError("%s:%d: %s defined twice" % (path, n.lineno, n.name))
            defs[n.name] = n
    for n, d in defs.items():
        if not isinstance(d, ast.FunctionDef):
            raise TranslateError("%s:%d: %s is not a plain def" % (path, d.lineno, n))
    return defs


BUILTINS_USED = {"print", "str", "len", "list", "enumerate", "Exception", "ValueError"}


def check_module(path, tree, names, modules=(), from_imports=()):
    """the translated defs / builtins are not rebound in the module; `modules` are bound by a plain
    `import m` only; `from_imports` = (module suffix, name) pairs that must be imported exactly so"""
    import translate_small as TS
    watched = set(names) | BUILTINS_USED
    for n in ast.walk(tree):
        if isinstance(n, ast.Name) and n.id in watched and isinstance(n.ctx, (ast.Store, ast.Del)):
            raise TranslateError("%s:%d: %s is rebound" % (path, n.lineno, n.id))
        if isinstance(n, ast.Attribute) and n.attr in set(names) and isinstance(n.ctx, (ast.Store, ast.Del)):
            raise TranslateError("%s:%d: %s is rebound" % (path, n.lineno, ast.unparse(n)))
        if isinstance(n, ast.Name) and n.id in ("setattr", "delattr", "__dict__", "globals", "exec", "eval"):
            raise TranslateError("%s:%d: %s is used in the module" % (path, n.lineno, n.id))
        if isinstance(n, (ast.Import, ast.ImportFrom)):
            for a in n.names:
                if (a.asname or a.name) in watched and (a.asname or a.name) not in {x for _, x in from_imports}:
                    raise TranslateError("%s:%d: %s is imported over" % (path, n.lineno, a.name))
        if isinstance(n, (ast.FunctionDef, ast.AsyncFunctionDef, ast.ClassDef)) and n.name in BUILTINS_USED:
            raise TranslateError("%s:%d: the builtin %s is redefined" % (path, n.lineno, n.name))
        if isinstance(n, ast.arg) and n.arg in BUILTINS_USED:
            raise TranslateError("%s:%d: the builtin %s is a parameter name" % (path, n.lineno, n.arg))
    for m in modules:
        TS.check_module_name(path, tree, m)
    for mod, name in from_imports:
        ok = False
        for n in ast.walk(tree):
            if isinstance(n, ast.ImportFrom):
                for a in n.names:
                    if (a.asname or a.name) == name:
                        if a.asname is None and (n.module or "").split(".")[-1] == mod and n in tree.body:
                            ok = True
                        else:
                            raise TranslateError("%s:%d: %s is imported from somewhere else" % (path, n.lineno, name))
            elif isinstance(n, ast.Import):
                for a in n.names:
                    if (a.asname or a.name.split(".")[0]) == name:
                        raise TranslateError("%s:%d: %s is bound by an import" % (path, n.lineno, name))
            elif isinstance(n, ast.Name) and n.id == name and isinstance(n.ctx, (ast.Store, ast.Del)):
                raise TranslateError("%s:%d: %s is rebound" % (path, n.lineno, name))
            elif isinstance(n, ast.arg) and n.arg == name:
                raise TranslateError("%s:%d: %s is a parameter name" % (path, n.lineno, name))
            elif isinstance(n, (ast.FunctionDef, ast.ClassDef)) and n.name == name:
                raise TranslateError("%s:%d: %s is redefined" % (path, n.lineno, name))
        if not ok:
            raise TranslateError("%s: no `from .%s import %s`" % (path, mod, name))


HEAD = """(* GENERATED by harness/translate_writer.py from the Python source of the current
   working tree (%s) on every run of a check.  Do not edit.
   Each definition is the line-by-line image of one Python function (or of the named
   statements of one) in the subset documented in the translator; the numbers in the
   comments are source lines.  %s *)
From Coq Require Import String Ascii.
From Coq Require Import List NArith Bool.
From Pcfg Require Import TextFile Counters WriterRt.
Import ListNotations.
Open Scope N_scope.
Local Notation s_ := str_of_string.

"""

# ====================================================================== struct: base structures, PRINCE, Markov
STRUCT_NOTE = ("theories/WriterGenProofsStruct.v proves them equal to\n"
               "   Counters.supported / structure / count_one / with_markov.")


def class_method(path, tree, cls, name):
    classes = [n for n in tree.body if isinstance(n, ast.ClassDef) and n.name == cls]
    if len(classes) != 1:
        raise TranslateError("%s: class %s not found exactly once" % (path, cls))
    defs = defs_of(path, classes[0].body)
    if name not in defs:
        raise TranslateError("%s: %s.%s not found" % (path, cls, name))
    return defs[name]


def mentions_call(st, names):
    for n in ast.walk(st):
        if isinstance(n, ast.Call) and isinstance(n.func, ast.Name) and n.func.id in names:
            return True
    return False


def parse_tail(path, fn):
    """the statements of PCFGPasswordParser.parse from the first call of prince_evaluation /
    base_structure_creation to the end"""
    idx = [i for i, st in enumerate(fn.body) if mentions_call(st, {"prince_evaluation", "base_structure_creation"})]
    if not idx:
        raise TranslateError("%s:%d: parse does not call prince_evaluation / base_structure_creation" % (path, fn.lineno))
    return fn.body[idx[0]:]


def markov_slice(path, fn):
    """the top-level statements of run_trainer from the first to the last one that mentions
    count_base_structures or program_info['coverage']"""
    def hit(st):
        for n in ast.walk(st):
            if isinstance(n, ast.Attribute) and n.attr == "count_base_structures":
                return True
            if isinstance(n, ast.Subscript) and isinstance(n.slice, ast.Constant) and n.slice.value == "coverage":
                return True
        return False
    idx = [i for i, st in enumerate(fn.body) if hit(st)]
    if not idx:
        raise TranslateError("%s:%d: run_trainer does not mention count_base_structures / coverage" % (path, fn.lineno))
    return idx[0], idx[-1] + 1


WATCHED_VARS = {"num_valid_passwords": "count:=", "pcfg_parser": "parser:="}


def call_events(path, fn, lo, hi):
    """the order of the calls of run_trainer that matter to the saved grammar, as a list of strings"""
    watched_attr = {"read_password": "loop", "process_password": "pass:alphabet", "train": "pass:multiword",
                    "parse": None, "apply_smoothing": "omen:smoothing"}
    watched_name = {"TrainerFileInput": "input", "find_omen_level": "pass:level",
                    "calc_omen_keyspace": "omen:keyspace", "save_config_file": "save:config",
                    "save_omen_rules_to_disk": "save:omen", "save_pcfg_data": "save:pcfg"}
    events = []

    def arg_text(c):
        return "(" + ",".join(ast.unparse(a).replace(" ", "").replace('"', "'") for a in c.args) + ")"

    def visit(node):
        # evaluation order: for a call, the arguments first
        if isinstance(node, ast.Call):
            for ch in list(node.args) + [kw.value for kw in node.keywords]:
                visit(ch)
            f = node.func
            if isinstance(f, ast.Attribute):
                visit(f.value)
                if f.attr in watched_attr:
                    ev = watched_attr[f.attr]
                    if f.attr == "parse":
                        recv = ast.unparse(f.value)
                        ev = "pass:pcfg" if recv == "pcfg_parser" else "pass:omen" if recv == "omen_trainer" else "parse:" + recv
                    if f.attr == "read_password":
                        ev = "loop:" + ast.unparse(f.value)
                    if f.attr == "train" and any(kw.arg == "set_threshold" for kw in node.keywords):
                        ev = "pretrain:multiword"
                    events.append(ev)
            elif isinstance(f, ast.Name) and f.id in watched_name:
                ev = watched_name[f.id]
                if ev.startswith("save:"):
                    if node.keywords:
                        raise TranslateError("%s:%d: keyword arguments in %s" % (path, node.lineno, f.id))
                    ev += arg_text(node)
                events.append(ev)
            return
        if isinstance(node, ast.For):
            visit(node.iter)
            for st in node.body + node.orelse:
                visit(st)
            return
        if isinstance(node, ast.Assign) and len(node.targets) == 1 and isinstance(node.targets[0], ast.Name) \
                and node.targets[0].id in WATCHED_VARS:
            visit(node.value)
            events.append(WATCHED_VARS[node.targets[0].id] + ast.unparse(node.value).replace(" ", "").replace('"', "'"))
            return
        if isinstance(node, (ast.Assign, ast.AugAssign, ast.AnnAssign, ast.For, ast.With, ast.NamedExpr, ast.Delete,
                             ast.Import, ast.ImportFrom, ast.ExceptHandler, ast.Global, ast.Nonlocal)):
            # any other way of (re)binding one of the watched variables
            bound = [n.id for n in ast.walk(node) if isinstance(n, ast.Name) and isinstance(n.ctx, (ast.Store, ast.Del))]
            bound += [a.asname or a.name for a in getattr(node, "names", []) if isinstance(a, ast.alias)]
            bound += [node.name] if isinstance(node, ast.ExceptHandler) and node.name else []
            bound += list(getattr(node, "names", [])) if isinstance(node, (ast.Global, ast.Nonlocal)) else []
            for b in bound:
                if b in WATCHED_VARS:
                    events.append(WATCHED_VARS[b] + "?")
        for ch in ast.iter_child_nodes(node):
            visit(ch)

    for i, st in enumerate(fn.body):
        if i == lo:
            events.append("markov")
        if lo <= i < hi:
            continue
        visit(st)
    return events


def render_struct(repo=None):
    g = Group("struct", "", "", {})
    gO = Group("struct", "{O : numops}", "", {})
    parts = []
    rels = []
    # base_structure_creation
    rel = "lib_trainer/base_structure.py"
    path, tree = parse(repo, rel)
    check_module(path, tree, {"base_structure_creation"})
    defs = defs_of(path, tree.body)
    spec = dict(py="base_structure_creation", coq="py_base_structure_creation", params=[("section_list", SECS)],
                ret=TUP(BOOL, STR))
    if spec["py"] not in defs:
        raise TranslateError("%s: %s not found" % (path, spec["py"]))
    parts.append(FnTr(path, rel, "", defs[spec["py"]], spec, g).translate())
    g.done[spec["py"]] = spec
    rels.append(rel)
    # prince_evaluation
    rel = "lib_trainer/prince_metrics.py"
    path, tree = parse(repo, rel)
    check_module(path, tree, {"prince_evaluation"})
    defs = defs_of(path, tree.body)
    spec = dict(py="prince_evaluation", coq="py_prince_evaluation", params=[("count_prince", ICNT), ("section_list", SECS)],
                ret=UNIT, inout=["count_prince"], note="returns None; the result is the Counter it updates in place")
    if spec["py"] not in defs:
        raise TranslateError("%s: %s not found" % (path, spec["py"]))
    parts.append(FnTr(path, rel, "", defs[spec["py"]], spec, g).translate())
    g.done[spec["py"]] = spec
    rels.append(rel)
    # the tail of PCFGPasswordParser.parse
    rel = "lib_trainer/pcfg_password_parser.py"
    path, tree = parse(repo, rel)
    check_module(path, tree, {"parse"}, from_imports=[("base_structure", "base_structure_creation"),
                                                      ("prince_metrics", "prince_evaluation")])
    fn = class_method(path, tree, "PCFGPasswordParser", "parse")
    names = ["count_prince", "count_base_structures", "count_raw_base_structures"]
    spec = dict(py="parse", coq="py_parse_tail", params=[],
                slice_params=[("self_" + n, ICNT) for n in names] + [("section_list", SECS)],
                attrs={("self", n): "self_" + n for n in names}, inout=["self_" + n for n in names], ret=BOOL,
                note="the statements from the call of prince_evaluation / base_structure_creation on; the result is the\n"
                     "   returned value with the three Counters of self they update")
    parts.append(FnTr(path, rel, "PCFGPasswordParser.", fn, spec, g).translate(parse_tail(path, fn)))
    rels.append(rel)
    # the Markov block of run_trainer
    rel = "lib_trainer/run_trainer.py"
    path, tree = parse(repo, rel)
    check_module(path, tree, {"run_trainer"})
    defs = defs_of(path, tree.body)
    if "run_trainer" not in defs:
        raise TranslateError("%s: run_trainer not found" % path)
    fn = defs["run_trainer"]
    lo, hi = markov_slice(path, fn)
    spec = dict(py="run_trainer", coq="py_run_trainer_markov_block", params=[],
                slice_params=[("program_info_coverage", NUM), ("num_valid_passwords", INT), ("omen_keyspace", CNT),
                              ("pcfg_parser_count_base_structures", CNT)],
                attrs={("pcfg_parser", "count_base_structures"): "pcfg_parser_count_base_structures"},
                items={("program_info", "coverage"): "program_info_coverage"},
                inout=["pcfg_parser_count_base_structures"], ret=BOOL, slice_return_plain=True,
                note="the statements that mention count_base_structures / program_info['coverage']: Retn b = run_trainer\n"
                     "   returns b there, Norm c = it goes on with count_base_structures = c")
    parts.append(FnTr(path, rel, "", fn, spec, gO).translate(fn.body[lo:hi]))
    rels.append(rel)
    ev = call_events(path, fn, lo, hi)
    parts.append("(* %s  def run_trainer: the calls that matter to the saved grammar, in evaluation order\n"
                 "   (markov = the block above) *)\n"
                 "Definition py_run_trainer_events : list string :=\n  [%s]%%string.\n"
                 % (rel, ";\n   ".join('"%s"' % e.replace('"', "'") for e in ev)))
    return HEAD % (", ".join(rels), STRUCT_NOTE) + "\n".join(parts)


# ====================================================================== save: the writers of save_pcfg_data.py
SAVE_NOTE = ("theories/WriterGenProofs.v proves them equal to\n"
             "   TextFile.write_file / Counters.save_indexed / save_pcfg_data over the file system of WriterRt.v.")
SAVE_CTX = ("{O : numops} (repr : num O -> TextFile.str) (encb : TextFile.str -> N -> bool) "
            "(calculate_probabilities : Counters.counter O -> Counters.counter O)")
SAVE_SPECS = [
    dict(py="calculate_and_save_counter", coq="py_calculate_and_save_counter",
         params=[("filename", PATH), ("item_counter", CNT), ("encoding", STR)], ret=BOOL, stateful=True),
    dict(py="save_indexed_counters", coq="py_save_indexed_counters",
         params=[("folder", PATH), ("counter_list", KCNTS), ("encoding", STR)], ret=BOOL, stateful=True),
    dict(py="save_pcfg_data", coq="py_save_pcfg_data",
         params=[("base_directory", PATH), ("pcfg_parser", PARSER), ("encoding", STR), ("save_sensitive", BOOL)],
         ret=BOOL, stateful=True),
]


def render_save(repo=None):
    rel = "lib_trainer/save_pcfg_data.py"
    path, tree = parse(repo, rel)
    check_module(path, tree, {sp["py"] for sp in SAVE_SPECS}, modules=("os", "codecs"),
                 from_imports=[("calculate_probabilities", "calculate_probabilities")])
    defs = defs_of(path, tree.body)
    g = Group("save", SAVE_CTX, "repr encb calculate_probabilities",
              {"calculate_probabilities": ([CNT], LIST(TUP(STR, NUM)))})
    parts = []
    for spec in SAVE_SPECS:
        if spec["py"] not in defs:
            raise TranslateError("%s: %s not found" % (path, spec["py"]))
        parts.append(FnTr(path, rel, "", defs[spec["py"]], spec, g).translate())
        g.done[spec["py"]] = spec
    return HEAD % (rel, SAVE_NOTE) + "\n".join(parts)


# ====================================================================== config: the sections of config.ini
CONFIG_NOTE = ("theories/WriterGenProofsConfig.v proves the\n"
               "   file lists and directories of the sections equal to Counters.config_lists / config_dirs.")
FN = LIST(KEY)
CONFIG_SPECS = [
    dict(py="create_filename_list", coq="py_create_filename_list", params=[("input_dictionary", KCNTS)], ret=FN),
    dict(py="add_program_details", coq="py_add_program_details", params=[("config", CONFIG), ("program_info", OPAQUE)],
         opaque=["program_info"]),
    dict(py="add_dataset_details", coq="py_add_dataset_details",
         params=[("config", CONFIG), ("program_info", OPAQUE), ("file_input", OPAQUE)], opaque=["program_info", "file_input"]),
    dict(py="add_start", coq="py_add_start", params=[("config", CONFIG)]),
    dict(py="add_alpha", coq="py_add_alpha", params=[("config", CONFIG), ("filenames", FN)]),
    dict(py="add_digits", coq="py_add_digits", params=[("config", CONFIG), ("filenames", FN)]),
    dict(py="add_other", coq="py_add_other", params=[("config", CONFIG), ("filenames", FN)]),
    dict(py="add_keyboard", coq="py_add_keyboard", params=[("config", CONFIG), ("filenames", FN)]),
    dict(py="add_context_sensitive", coq="py_add_context_sensitive", params=[("config", CONFIG)]),
    dict(py="add_years", coq="py_add_years", params=[("config", CONFIG)]),
    dict(py="add_capitalization", coq="py_add_capitalization", params=[("config", CONFIG), ("filenames", FN)]),
    dict(py="create_config_file", coq="py_create_config_file",
         params=[("program_info", OPAQUE), ("file_input", OPAQUE), ("pcfg_parser", PARSER)], ret=CONFIG,
         opaque=["program_info", "file_input"]),
]


def render_config(repo=None):
    rel = "lib_trainer/config_file.py"
    path, tree = parse(repo, rel)
    check_module(path, tree, {sp["py"] for sp in CONFIG_SPECS}, modules=("os", "json", "uuid"),
                 from_imports=[("configparser", "ConfigParser")])
    defs = defs_of(path, tree.body)
    g = Group("config", "(O : numops)", "O", {})
    parts = []
    for spec in CONFIG_SPECS:
        spec = dict(spec)
        if spec["py"].startswith("add_"):
            spec.update(ret=UNIT, inout=["config"], note="returns None; the result is the configuration it updates in place")
        if spec["py"] not in defs:
            raise TranslateError("%s: %s not found" % (path, spec["py"]))
        parts.append(FnTr(path, rel, "", defs[spec["py"]], spec, g).translate())
        g.done[spec["py"]] = spec
    return HEAD % (rel, CONFIG_NOTE) + "\n".join(parts)


def failure_text(name, err):
    """text written instead of the definitions when the translation fails: it must not
    compile, so that no stale generated definition survives"""
    return ("(* GENERATED by harness/translate_writer.py.  The translation of the current sources FAILED:\n"
            "   %s\n   The line below does not type-check on purpose. *)\n"
            "Definition writer_%s_translation_failed : False := I.\n" % (_comment(str(err)), name))


def write(name, repo=None):
    import extract_consts as X
    render, out = KERNELS[name]
    path = os.path.join(common.COQ, out)
    try:
        text = render(repo)
    except Exception as e:
        X.write(path, failure_text(name, "%s: %s" % (type(e).__name__, e)))
        raise
    return X.write(path, text)


def write_all(repo=None):
    """every group is written (or replaced by its failure text); the first error is raised afterwards"""
    first = None
    for name in sorted(KERNELS):
        try:
            write(name, repo)
        except Exception as e:      # noqa: BLE001  (fail closed: re-raised below)
            first = first or e
    if first is not None:
        raise first


KERNELS = {}
KERNELS["struct"] = (render_struct, os.path.join("gen", "WriterStruct_gen.v"))
KERNELS["save"] = (render_save, os.path.join("gen", "Writer_gen.v"))
KERNELS["config"] = (render_config, os.path.join("gen", "WriterConfig_gen.v"))

if __name__ == "__main__":
    args = sys.argv[1:]
    if "--write" in args:
        write_all()
        print("written")
    else:
        for name in (args or sorted(KERNELS)):
            sys.stdout.write(KERNELS[name][0]())
