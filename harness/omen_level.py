"""Shared machinery of C11 / C18: generated training lists, the REAL trainer
objects of /repo driven in-process exactly as lib_trainer/run_trainer.py drives
them (three passes), files written by the real writer, the real scorer and the
real guesser loader + MarkovCracker on those files, and the emission of the
trainer's tables as Gallina literals for the models of OmenLevel.v /
OmenKeyspace.v.

Every random choice comes from the caller's random.Random."""
import copy
import os
import signal
import time
from collections import Counter

import common
import unicode_pool

common.repo_on_path()

TAB = "\t"

# ---------------------------------------------------------------- generators

ASCII_POOL = "abcdefgh12!"
LATIN_POOL = "ae\u00e91\u00f1b\u00fc"          # encodable in latin-1 and utf-8
CYR_POOL = "\u0434\u0430\u0431\u0440\u043e\u043a1\u0435"            # encodable in cp1251 and utf-8
# characters check_valid admits although a line reader may treat them specially
ODD_POOL = "a\u2029b\u00a0\u001c"   # U+001C is rejected by check_valid (kept to exercise the filter); U+2029 and NBSP are admitted

KINDS = ["len_eq_ngram", "single_len", "mixed", "nonascii", "sparse_alphabet", "dup_heavy", "odd", "long", "cp_empty",
         "big", "mixed", "len_eq_ngram", "single_len", "nonascii", "non_nfc", "non_nfc"]


def _word(rng, pool, n):
    return "".join(rng.choice(pool) for _ in range(n))


def gen_extreme(rng):
    """Extreme count ratios, so that a conditional transition (and a length) is smoothed to the CAP level 10 although
    it was seen: _calc_level gives 10 for a CP seen less than ~1/44000 of its prefix, for a length seen less than
    ~1/22000 of the list.  One prefix is followed ~50-100k times by its usual letters and once or twice by rare ones;
    the rare letter is the LAST transition of one password, an inner transition of another, and follows the second
    prefix of a third.  The counts go through the trainer's own prefixcount reader ("<n> <password>" lines)."""
    ngram = rng.choice([2, 3, 4, 4])
    letters = list("abcdefghkmnpqrstuvwxyz12")
    rng.shuffle(letters)
    stem = "".join(letters[:ngram])                 # all different: a tiny, enumerable grammar
    ext, rare1, rare2, rare3, tail, other = letters[ngram:ngram + 6]
    big = rng.randint(46000, 70000)
    mid = rng.randint(20000, 47000)
    items = [(stem, big), (stem + ext, mid),
             (stem[:-1] + rare1, 1),                # level-10 transition is the last one, length = ngram
             (stem[:-1] + rare2 + tail, rng.choice([1, 2])),   # level-10 transition followed by another one
             (stem + rare3, 1),                     # rare letter after the prefix stem[1:]
             (stem + ext + tail * rng.randint(2, 4), 1),       # a length seen once among > 22026: LN level 10
             (other + stem[1:], 1)]                 # a rare initial n-gram (IP level 5..6)
    for _ in range(rng.randint(0, 4)):
        items.append((stem + rng.choice([ext, tail, rare1]) * rng.randint(0, 2), rng.choice([1, 3, 40, 900])))
    rng.shuffle(items)
    merged = {}
    for pw, n in items:
        merged[pw] = merged.get(pw, 0) + n
    return {"kind": "extreme", "passwords": list(merged), "counts": list(merged.values()), "ngram": ngram,
            "alphabet_size": 30, "max_len": rng.choice([21, 21, ngram + 6]), "encoding": "utf-8"}


def gen_training(rng, kind=None):
    """A small training list and the trainer configuration.
    Returns dict(kind, passwords, ngram, alphabet_size, max_len, encoding [, counts])."""
    kind = kind or rng.choice(KINDS)
    if kind == "extreme":
        return gen_extreme(rng)
    ngram = rng.choice([2, 2, 3, 3, 4])
    asize = rng.randint(2, 8)
    encoding = "utf-8"
    pool = ASCII_POOL[:rng.randint(2, 8)]
    max_len = rng.choice([21, 21, 21, ngram, ngram + 1, ngram + 2, 6, 8])
    if max_len < ngram:
        max_len = ngram
    n = rng.randint(3, 40)
    pws = []
    if kind == "nonascii":
        if rng.random() < 0.5:
            pool, encoding = LATIN_POOL[:rng.randint(3, 7)], rng.choice(["utf-8", "latin-1", "iso-8859-1"])
        else:
            pool, encoding = CYR_POOL[:rng.randint(3, 8)], rng.choice(["utf-8", "cp1251"])
        kind2 = rng.choice(["mixed", "len_eq_ngram", "single_len"])
    elif kind == "non_nfc":
        # text that is NOT in Unicode normal form C (harness/unicode_pool.py), utf-8 / utf-16: either random words over an alphabet in
        # which a base letter, a combining mark and the precomposed letter (a singleton and its twin, Hangul jamo and the
        # syllable, a CJK compatibility ideograph and the unified one) are separate symbols, or whole words in both spellings
        # as different passwords with counts of their own
        encoding = rng.choice(["utf-8", "utf-8", "utf-16", "utf-16-le"])
        if rng.random() < 0.5:
            pool = unicode_pool.char_pool(rng)
            asize = 8
            kind2 = rng.choice(["mixed", "len_eq_ngram", "single_len", "long"])
        else:
            asize = rng.choice([30, 30, 100, 12])
            max_len = rng.choice([21, 21, 21, 12])
            for p in unicode_pool.passwords(rng, rng.randint(2, 5)):
                pws += [p] * rng.choice([1, 1, 2, 3, 5])
            pws += [_word(rng, pool, rng.randint(ngram, ngram + 3)) for _ in range(rng.randint(0, 4))]
            rng.shuffle(pws)
            kind2 = "given"
    elif kind == "blanks":
        # pass phrases: blanks that str.strip() would remove (ASCII space, NO-BREAK SPACE, IDEOGRAPHIC SPACE) inside and at the end
        # of n-grams; they are data like every other character (not in KINDS: drawn by the checks that name it)
        pool, encoding = rng.choice(["a b", "ab " + unicode_pool.U("a0"), "a " + unicode_pool.U("3000") + "b1", "my dog"]), "utf-8"
        asize = 8
        kind2 = rng.choice(["mixed", "len_eq_ngram", "single_len", "long"])
    elif kind == "odd":
        # characters check_valid admits (NBSP, U+2029) or filters (U+001C), utf-8
        pool, encoding = ODD_POOL[:rng.choice([3, 4, 5])], "utf-8"
        asize = 8
        kind2 = rng.choice(["mixed", "len_eq_ngram", "single_len"])
    else:
        kind2 = kind
    if kind2 == "given":
        pass
    elif kind2 == "len_eq_ngram":
        # dominated by passwords whose length equals the n-gram size
        base = [_word(rng, pool, ngram) for _ in range(rng.randint(1, 4))]
        for _ in range(n):
            r = rng.random()
            if r < 0.8:
                pws.append(rng.choice(base))
            elif r < 0.9:
                pws.append(_word(rng, pool, ngram))
            else:
                pws.append(_word(rng, pool, rng.randint(1, ngram + 3)))
    elif kind2 == "single_len":
        # one length only (length cost 0), longer than the n-gram
        ln = rng.randint(ngram, ngram + 3)
        base = [_word(rng, pool, ln) for _ in range(rng.randint(1, 5))]
        for _ in range(n):
            pws.append(rng.choice(base) if rng.random() < 0.7 else _word(rng, pool, ln))
    elif kind2 == "dup_heavy":
        base = [_word(rng, pool, rng.randint(ngram, ngram + 4)) for _ in range(rng.randint(1, 3))]
        for _ in range(n):
            pws.append(rng.choice(base))
    elif kind2 == "long":
        for _ in range(n):
            pws.append(_word(rng, pool[:3], rng.randint(ngram, min(max_len + 1, 12))))
    elif kind2 == "cp_empty":
        # every transition ends in a character outside the alphabet: CP.level stays empty
        asize = 1
        a, b = pool[0], pool[1]
        for _ in range(n):
            pws.append(rng.choice([a + b, b + a, a + b + a + b, b + a + b]) if ngram == 2 else
                       rng.choice([a + b * (ngram - 1), b + a + b * ngram, a + b + a + b + a]))
        ngram = min(ngram, 3)
    elif kind2 == "big":
        # many passwords over few stems: IP levels between 1 and 9 appear (ip_count/total*250 < 1/e)
        stems = [_word(rng, pool, rng.randint(ngram, ngram + 3)) for _ in range(rng.randint(8, 30))]
        weights = [1.0 / (i + 1) ** rng.choice([1.0, 1.5, 2.0]) for i in range(len(stems))]
        pws = rng.choices(stems, weights, k=rng.randint(700, 2500))
        pws += [_word(rng, ASCII_POOL[:8], rng.randint(1, ngram + 3)) for _ in range(rng.randint(3, 30))]
        asize = 8
    else:  # mixed / sparse_alphabet
        if kind2 == "sparse_alphabet":
            asize = rng.randint(1, max(1, len(set(pool)) - 1))
        stems = [_word(rng, pool, rng.randint(1, 4)) for _ in range(rng.randint(2, 5))]
        for _ in range(n):
            r = rng.random()
            if r < 0.5:
                pws.append(rng.choice(stems) + _word(rng, pool, rng.randint(0, 3)))
            elif r < 0.8:
                pws.append(rng.choice(stems) + rng.choice(stems))
            else:
                pws.append(_word(rng, pool, rng.randint(1, ngram + 4)))
    return {"kind": kind, "passwords": pws, "ngram": ngram, "alphabet_size": asize, "max_len": max_len,
            "encoding": encoding}


# ---------------------------------------------------------------- a ruleset name that is trained more than once

RETRAIN_VARIANTS = ["ngram", "ngram", "ngram", "alphabet_size", "encoding", "list", "everything", "same", "same_characters",
                    "same_characters"]
NGRAM_PAIRS = [(4, 5), (3, 4), (5, 4), (2, 3), (3, 2), (4, 3), (5, 3), (2, 4)]


def _other_encodings(cfg):
    out = []
    for e in ("utf-8", "latin-1", "cp1251"):
        if e == cfg["encoding"] or (e, cfg["encoding"]) in (("latin-1", "iso-8859-1"),):
            continue
        try:
            for p in cfg["passwords"]:
                p.encode(e)
        except (UnicodeEncodeError, UnicodeDecodeError):
            continue
        out.append(e)
    return out


def gen_retraining(rng, kind=None, cli=False, variant=None):
    """A HISTORY of trainings onto one ruleset name: {"steps": [cfg, ..., target cfg], "variants": [...]}.
    The last step is the ruleset under test; the earlier ones are what the directory held before: the same list with
    another n-gram size (4 then 5, 3 then 4, ...), another alphabet size, another encoding, another list, the same
    characters in other passwords (same settings and usually the same learned alphabet), everything different, or exactly
    the same training again.  cli: only what trainer.py has an option for (max_len stays 21)."""
    target = gen_training(rng, kind)
    if cli:
        target = dict(target, max_len=21)
        target.pop("counts", None)
    n_prev = 2 if rng.random() < 0.25 else 1
    steps, variants = [target], []
    for _ in range(n_prev):
        cur = steps[0]
        v = rng.choice(RETRAIN_VARIANTS)
        if variant is not None and len(steps) == 1:
            v = variant                 # (the draw above is kept: the same stream of random numbers either way)
        if v == "encoding" and not _other_encodings(cur):
            v = "ngram"
        if v == "ngram":
            if len(steps) == 1:
                n1, n2 = rng.choice(NGRAM_PAIRS)
                cur = dict(cur, ngram=n2, max_len=max(cur["max_len"], n2))
                steps[0] = cur
            else:
                n1 = rng.choice([n for n in (2, 3, 4, 5) if n != cur["ngram"]])
            prev = dict(cur, ngram=n1, max_len=max(cur["max_len"], n1))
        elif v == "alphabet_size":
            prev = dict(cur, alphabet_size=rng.choice([a for a in (1, 2, 3, 5, 8, 30, 100) if a != cur["alphabet_size"]]))
        elif v == "encoding":
            prev = dict(cur, encoding=rng.choice(_other_encodings(cur)))
        elif v == "list":
            other = gen_training(rng, rng.choice(["mixed", "long", "dup_heavy", "single_len", "len_eq_ngram"]))
            prev = dict(cur, passwords=other["passwords"])
            prev.pop("counts", None)
            if any(_unencodable(p, cur["encoding"]) for p in prev["passwords"]):
                prev["encoding"] = "utf-8"
        elif v == "same_characters":
            # an "updated version of the same list": the same characters with the same counts (every password but the first
            # reversed or rotated), so that the settings AND the learned alphabet can stay what they were while the tables change
            k = rng.choice([0, 1, 2])
            pws = cur["passwords"]
            prev = dict(cur, passwords=pws[:1] + [(p[::-1] if k == 0 else p[k:] + p[:k]) for p in pws[1:]])
        elif v == "everything":
            prev = gen_training(rng, None)
            if cli:
                prev = dict(prev, max_len=21)
                prev.pop("counts", None)
        else:
            prev = dict(cur)
        steps.insert(0, prev)
        variants.insert(0, v)
    return {"steps": steps, "variants": variants}


def _unencodable(p, enc):
    try:
        p.encode(enc)
        return False
    except (UnicodeEncodeError, UnicodeDecodeError):
        return True


def omen_files(d):
    """name -> bytes of the files in an Omen directory"""
    out = {}
    if os.path.isdir(d):
        for fn in sorted(os.listdir(d)):
            p = os.path.join(d, fn)
            if os.path.isfile(p):
                out[fn] = open(p, "rb").read()
    return out


def session_on(T, seconds=0.2):
    """What a guessing / scoring session on the ruleset does between two trainings: the real guesser loader and one small
    level of the real generator, the real scorer loader."""
    try:
        G, _ = T.load_guesser()
        if G is not None:
            enumerate_sets(G, [0, 1], cap=500, seconds=seconds, total_seconds=2 * seconds)
        T.load_scorer()
    except Exception:
        pass


# ---------------------------------------------------------------- the real trainer, in-process

def wide_codec(enc):
    """utf-16 / utf-32 and their -le / -be forms: the line feed is not the byte 0x0A and the file has ONE byte order mark"""
    import codecs
    try:
        return codecs.lookup(enc).name.startswith(("utf-16", "utf-32"))
    except LookupError:
        return False


def training_bytes(passwords, counts, enc):
    """the bytes of a training file: one line per password (with its count in front when counts are given)"""
    if wide_codec(enc):
        return "".join(("%d " % counts[i] if counts else "") + p + "\n" for i, p in enumerate(passwords)).encode(enc)
    out = []
    for i, p in enumerate(passwords):
        pre = ("%d " % counts[i]).encode("ascii") if counts else b""
        out.append(pre + p.encode(enc, errors="surrogateescape") + b"\n")
    return b"".join(out)


class Trained:
    """What lib_trainer/run_trainer.py does for OMEN, with the same objects in
    the same order (pass 1 alphabet, pass 2 n-grams, smoothing, keyspace, pass 3
    levels, save), on a training file written to scratch."""

    def __init__(self, cfg, base_dir, max_keyspace=None):
        from lib_trainer.trainer_file_input import TrainerFileInput
        from lib_trainer.omen.alphabet_generator import AlphabetGenerator
        from lib_trainer.omen.alphabet_lookup import AlphabetLookup
        from lib_trainer.omen.evaluate_password import find_omen_level, calc_omen_keyspace
        from lib_trainer.omen.omen_file_output import save_omen_rules_to_disk
        self.cfg = cfg
        self.base_dir = base_dir
        self.error = None
        enc = cfg["encoding"]
        os.makedirs(base_dir, exist_ok=True)
        tf = os.path.join(base_dir, "training.txt")
        counts = cfg.get("counts")
        pc = bool(counts)
        with open(tf, "wb") as f:
            f.write(training_bytes(cfg["passwords"], counts if pc else None, enc))
        # pass 1
        fi = TrainerFileInput(tf, enc, pc)
        ag = AlphabetGenerator(cfg["alphabet_size"], cfg["ngram"])
        self.valid = []
        for pw in fi.read_password():
            ag.process_password(pw)
            self.valid.append(pw)
        self.alphabet = ag.get_alphabet()
        self.num_valid = fi.num_passwords
        # pass 2
        fi = TrainerFileInput(tf, enc, pc)
        tr = AlphabetLookup(alphabet=self.alphabet, ngram=cfg["ngram"], max_length=cfg["max_len"])
        for pw in fi.read_password():
            tr.parse(pw)
        self.trainer = tr
        self.usable = self.num_valid > 0 and tr.ln_counter > 0 and tr.ip_counter > 0
        if not self.usable:
            # apply_smoothing would divide by zero (run_trainer has the same fate); nothing to compare
            return
        tr.apply_smoothing()
        # tables as smoothed, before any keyspace cache is added
        self.tables = self.snapshot()
        # keyspace, default bounds (what run_trainer does)
        self.keyspace, _, _ = common.quiet_call(calc_omen_keyspace, tr)
        self.keyspace = Counter(self.keyspace)
        # the same call again on the warm cache with a small cut-off, and on a cold copy
        self.small_max = max_keyspace
        if max_keyspace is not None:
            self.keyspace_small_warm, _, _ = common.quiet_call(calc_omen_keyspace, tr, 18, max_keyspace)
            cold = copy.deepcopy(tr)
            for v in cold.grammar.values():
                v.pop("keyspace_cache", None)
            self.keyspace_small_cold, _, _ = common.quiet_call(calc_omen_keyspace, cold, 18, max_keyspace)
        # pass 3
        fi = TrainerFileInput(tf, enc, pc)
        self.levels_count = Counter()
        for pw in fi.read_password():
            self.levels_count[find_omen_level(tr, pw)] += 1
        self.program_info = {"encoding": enc, "ngram": cfg["ngram"], "alphabet": self.alphabet}
        ok, _, _ = common.quiet_call(save_omen_rules_to_disk, tr, self.keyspace, self.levels_count, self.num_valid,
                                     base_dir, self.program_info)
        self.saved = bool(ok)
        self.omen_dir = os.path.join(base_dir, "Omen")

    def snapshot(self):
        tr = self.trainer
        g = []
        for key, d in tr.grammar.items():
            g.append((key, d["ip_level"], d["ep_level"], [(c, lv[0]) for c, lv in d["next_letter"].items()]))
        return {"ngram": tr.ngram, "min_len": tr.min_length, "max_len": tr.max_length, "grammar": g,
                "ln": [x[0] for x in tr.ln_lookup]}

    def trainer_level(self, s):
        from lib_trainer.omen.evaluate_password import find_omen_level
        return find_omen_level(self.trainer, s)

    # ---- files as written (neutral reading: bytes, ruleset encoding, split at LF only)
    def raw_lines(self, name, encoding=None):
        b = open(os.path.join(self.omen_dir, name), "rb").read()
        t = b.decode(encoding or self.cfg["encoding"])
        ls = t.split("\n")
        assert ls[-1] == ""
        return ls[:-1]

    def file_pairs(self, name):
        out = []
        for l in self.raw_lines(name):
            a, b = l.split(TAB, 1)
            out.append((int(a), b))
        return out

    def file_keyspace(self):
        return [(int(a), int(b)) for a, b in (l.split(TAB) for l in self.raw_lines("omen_keyspace.txt"))]

    def file_prob(self):
        return [(int(a), float(b)) for a, b in (l.split(TAB) for l in self.raw_lines("pcfg_omen_prob.txt"))]

    def file_pws_per_level(self):
        return [(int(a), int(b)) for a, b in (l.split(TAB) for l in self.raw_lines("omen_pws_per_level.txt"))]

    # ---- the real scorer
    def load_scorer(self):
        from lib_scorer.omen_scorer import OmenScorer
        try:
            sc, _, _ = common.quiet_call(OmenScorer, self.base_dir, self.cfg["encoding"], 18)
            return sc, None
        except Exception as e:  # the property says it must load
            return None, "%s: %s" % (type(e).__name__, e)

    # ---- the real guesser loader
    def load_guesser(self):
        from lib_guesser.omen.input_file_io import load_rules
        g = {}
        ok, out, err = common.quiet_call(load_rules, self.omen_dir, g)
        if not ok:
            lines = [l for l in (err + "\n" + out).split("\n") if l.strip()]
            key = [l for l in lines if "Error parsing" in l or "Invalid level" in l or "Error:" in l or "codec" in l]
            return None, (key[0] if key else lines[-1] if lines else "load_rules returned False")[:200]
        return g, None


class Timeout(Exception):
    pass


def _alarm(signum, frame):
    raise Timeout()


def enumerate_level(grammar, level, optimizer, cap, seconds):
    """All guesses the real MarkovCracker emits for one target level.
    Returns (list, complete, error)."""
    from lib_guesser.omen.markov_cracker import MarkovCracker
    out = []
    old = signal.signal(signal.SIGALRM, _alarm)
    signal.setitimer(signal.ITIMER_REAL, seconds)
    try:
        mc = MarkovCracker(grammar, level, optimizer)
        while True:
            g = mc.next_guess()
            if g is None:
                return out, True, None
            out.append(g)
            if len(out) > cap:
                return out, False, None
    except Timeout:
        return out, False, None
    except Exception as e:
        return out, False, "%s: %s" % (type(e).__name__, e)
    finally:
        signal.setitimer(signal.ITIMER_REAL, 0)
        signal.signal(signal.SIGALRM, old)


def enumerate_all(grammar, levels, cap, seconds, total_seconds, shared=True):
    """E[L] = (strings, complete, error) for the given levels, one Optimizer
    shared across levels (as PcfgGrammar does) or fresh per level."""
    from lib_guesser.omen.optimizer import Optimizer
    E = {}
    t0 = time.time()
    opt = Optimizer(max_length=4)
    for L in levels:
        if time.time() - t0 > total_seconds:
            E[L] = ([], False, None)
            continue
        if not shared:
            opt = Optimizer(max_length=4)
        E[L] = enumerate_level(grammar, L, opt, cap, seconds)
        if not E[L][1] and shared:
            # an interrupted search may leave a half-written memo entry: start clean
            opt = Optimizer(max_length=4)
    return E


# ---------------------------------------------------------------- Gallina literals

def cnat(n):
    return "%d%%nat" % n


def coq_tables(tb):
    """ttab literal of OmenLevel.v"""
    ents = []
    for key, ipl, epl, nxt in tb["grammar"]:
        nl = common.clist(["(%d%%N, %s)" % (ord(c), cnat(l)) for c, l in nxt]) if nxt else "(@nil (N * nat))"
        ents.append("mk_tentry %s %s %s %s" % (common.cstr(key), cnat(ipl), cnat(epl), nl))
    g = "[" + ";\n   ".join(ents) + "]" if ents else "(@nil tentry)"
    ln = common.clist([cnat(x) for x in tb["ln"]]) if tb["ln"] else "(@nil nat)"
    return "(mk_ttab %s %s %s\n  %s\n  %s)" % (cnat(tb["ngram"]), cnat(tb["min_len"]), cnat(tb["max_len"]), g, ln)


def coq_pws_rle(pws):
    """list of passwords in file order -> `expand_pws [...]` (run-length encoded)"""
    runs = []
    for p in pws:
        if runs and runs[-1][0] == p:
            runs[-1][1] += 1
        else:
            runs.append([p, 1])
    if not runs:
        return "(@nil (list N))"
    return "(expand_pws %s)" % common.clist(["(%s, %d%%N)" % (common.cstr(p), n) for p, n in runs])


def coq_level(l):
    """Python level (-1 = cannot be generated) -> option nat"""
    return "None" if l is None or l < 0 else "(Some %s)" % cnat(l)


def coq_lines(pairs):
    return common.clist(["(%s, %s)" % (cnat(l), common.cstr(s)) for l, s in pairs]) if pairs else "(@nil (nat * list N))"


# ---------------------------------------------------------------- candidates and the three-way oracle

FOREIGN = ["Z", "\u00e9", " ", "\u2029", "\u044f", "0", "\u0085"]
FOREIGN += [unicode_pool.U("301"), unicode_pool.U("212b")]       # a combining mark (composes with many letters), a singleton


def walk(rng, T, n):
    """A string of n characters following the trained transitions as long as possible."""
    g = T.trainer.grammar
    keys = list(g)
    alpha = T.alphabet or "a"
    if not keys or n == 0:
        return "".join(rng.choice(alpha) for _ in range(n))
    ip = [k for k in keys if g[k]["ip_count"] > 0] or keys
    s = rng.choice(ip)
    while len(s) < n:
        pre = s[len(s) - (T.trainer.ngram - 1):]
        nl = list(g.get(pre, {}).get("next_letter", {}))
        s += rng.choice(nl) if nl and rng.random() < 0.9 else rng.choice(alpha)
    return s[:n]


def candidates(rng, T, E, n_members=40, n_extra=6):
    ng, ml = T.trainer.ngram, T.trainer.max_length
    out = []
    seen = set()

    def add(s, why):
        if s not in seen:
            seen.add(s)
            out.append((s, why))
    for p in T.cfg["passwords"]:
        add(p, "training")
    # the other spelling of a training password under the Unicode normal forms (composed <-> decomposed, singleton <-> its
    # canonical equivalent): ANOTHER string, whose level all three must agree on as well
    for p in list(dict.fromkeys(T.cfg["passwords"]))[:40]:
        for t in unicode_pool.twins(p):
            add(t, "normal-form-twin")
    members = [s for L in sorted(E) for s in E[L][0]]
    rng.shuffle(members)
    for s in members[:n_members]:
        add(s, "member")
    for s in members[:n_members]:
        for t in unicode_pool.twins(s)[:1]:
            add(t, "normal-form-twin")
    for n in sorted({0, 1, ng - 1, ng, ng + 1, ml - 1, ml, ml + 1, ml + 2}):
        if n < 0:
            continue
        for _ in range(2):
            add(walk(rng, T, n), "boundary")
        if T.alphabet:
            add(T.alphabet[0] * n, "boundary")
    base = [p for p in T.cfg["passwords"] if p] or ["a"]
    for _ in range(n_extra):
        p = rng.choice(base)
        i = rng.randrange(len(p))
        add(p[:i] + rng.choice(FOREIGN) + p[i + 1:], "foreign")
        add(p[:i] + rng.choice(T.alphabet or "a") + p[i + 1:], "mutated")
        add(p + rng.choice(T.alphabet or "a"), "mutated")
        add(p[:-1], "mutated")
    return out


def guesser_level(s, E):
    """(decided, level or None): the level at which the real MarkovCracker emitted s.
    decided is False when s was not seen and some level was not enumerated completely."""
    hits = [L for L in E if s in E[L][2]]
    if hits:
        return True, hits
    return all(E[L][1] for L in E), []


def enumerate_sets(G, levels, cap, seconds, total_seconds, shared=True):
    """E[L] = (list in order, complete, set, error)"""
    E0 = enumerate_all(G, levels, cap, seconds, total_seconds, shared)
    return {L: (v[0], v[1], set(v[0]), v[2]) for L, v in E0.items()}


# ---------------------------------------------------------------- shrinking

def shrink_training(cfg, still_fails, seconds=4.0):
    """Delta-debugging on the password list (then on password lengths) of a
    failing training configuration; still_fails(cfg) -> bool re-runs the real code."""
    t0 = time.time()
    best = dict(cfg)
    has_counts = bool(cfg.get("counts"))
    pws = list(zip(best["passwords"], cfg["counts"])) if has_counts else list(best["passwords"])

    def build(cand):
        if has_counts:
            return dict(best, passwords=[p for p, _ in cand], counts=[n for _, n in cand])
        return dict(best, passwords=cand)

    def ok(cand):
        if time.time() - t0 > seconds:
            return False
        c = build(cand)
        try:
            return bool(still_fails(c))
        except Exception:
            return False
    n = 2
    while len(pws) >= 2 and time.time() - t0 < seconds:
        chunk = max(1, len(pws) // n)
        reduced = False
        for i in range(0, len(pws), chunk):
            cand = pws[:i] + pws[i + chunk:]
            if cand and ok(cand):
                pws = cand
                n = max(n - 1, 2)
                reduced = True
                break
        if not reduced:
            if chunk == 1:
                break
            n = min(len(pws), n * 2)
    # shorten single passwords from the right
    for i in range(len(pws)):
        if has_counts:
            break
        while len(pws[i]) > 1 and time.time() - t0 < seconds:
            cand = pws[:i] + [pws[i][:-1]] + pws[i + 1:]
            if ok(cand):
                pws = cand
            else:
                break
    best = build(pws)
    best["kind"] = cfg.get("kind", "") + "/shrunk"
    return best
